#!/bin/sh
# tools/try_seeded.sh <patch.diff> <Cxx> [<Cxx>...]   apply a seeded change to /repo, run quick checks, undo it.
patch=$1; shift
cd /verif
git -C /repo apply "$patch" || { echo "patch does not apply"; exit 2; }
for c in "$@"; do
  echo "=== $c with $patch"
  VERIF_SEED=${VERIF_SEED:-1} ./check $c --tier ${TIER:-quick} 2>&1 | grep -v "^classes" | tail -6
done
git -C /repo checkout -- .
python3 -m vlib.build ensure fast >/dev/null; python3 -m vlib.build ensure san >/dev/null; python3 -m vlib.build ensure tsan >/dev/null
