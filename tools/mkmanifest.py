#!/usr/bin/env python3
"""Generate MANIFEST.json from the table below (kept in one place so it stays valid)."""
import json, os, sys
ROOT = os.path.dirname(os.path.dirname(os.path.abspath(__file__)))
sys.path.insert(0, ROOT)

HOOK_COMMITS = []
hc = os.path.join(ROOT, "tools", "hook_commits.txt")
if os.path.exists(hc):
    HOOK_COMMITS = [l.split()[0] for l in open(hc) if l.strip() and not l.startswith("#")]

# id: (technique, level text, level note, design ref)
CHECKS = {}
NA = {}
exec(open(os.path.join(ROOT, "tools", "checks_table.py")).read())

props = [json.loads(l)["id"] for l in open(os.path.join(ROOT, "properties.jsonl"))]
checks = []
for pid in props:
    if pid not in CHECKS:
        continue
    tech, text, note, ref = CHECKS[pid]
    checks.append({
        "property_id": pid,
        "quick_cmd": "./check %s --tier quick" % pid,
        "thorough_cmd": "./check %s --tier thorough" % pid,
        "evidence_file": "/verif/evidence/%s.json" % pid,
        "replay_cmd_template": "./check %s --replay {path}" % pid,
        "engine": "vlib.driver",
        "level_claimed": {"category": "exploration", "text": text, "design_ref": ref},
        "level_note": note,
        "technique": tech,
    })
na = [{"property_id": p, "reason": NA.get(p, "check not built yet in this session; see DESIGN.md section 4 for the planned generated check")}
      for p in props if p not in CHECKS]
m = {
    "version": 1,
    "setup_cmd": "./setup.sh",
    "hooks": {
        "guard": "OPENSMT_VERIF_HOOKS",
        "enable": "vlib/build.py configures out-of-tree builds under /verif/.build/<variant> with -DOPENSMT_VERIF_HOOKS in CMAKE_CXX_FLAGS; traces are only written when env OPENSMT_VERIF_TRACE names a file",
        "baseline_off_cmd": "cmake --build /repo/_build -j16 && ctest --test-dir /repo/_build -j16 --timeout 900",
        "source_commits": HOOK_COMMITS,
        "add_only": True,
    },
    "engines": [
        {"name": "vlib.driver", "path": "/verif/vlib/driver.py", "serves_properties": [c["property_id"] for c in checks],
         "kind_free_text": "Hypothesis (st.randoms) campaign driver, 16 worker processes, replay tier, known findings, evidence writer"},
    ],
    "checks": checks,
    "not_applicable": na,
    "notes": "Technique family: property-based testing and fuzzing only. See DESIGN.md.",
}
json.dump(m, open(os.path.join(ROOT, "MANIFEST.json"), "w"), indent=1)
print("MANIFEST.json: %d checks, %d not_applicable" % (len(checks), len(na)))
