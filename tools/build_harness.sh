#!/bin/sh
# build the small standalone tools / C++ harnesses used by the checks (offline, from files on disk only)
cd "$(dirname "$0")/.." || exit 2
set -e
mkdir -p .build/harness
g++ -O2 -std=c++17 -o .build/harness/rupcheck harness/rupcheck.cc
[ -x tools/build_harness_api.sh ] && tools/build_harness_api.sh h_rational h_numlit h_mkterm h_round h_hashcons h_threads h_stop h_theory || true
echo harness done
