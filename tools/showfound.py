#!/usr/bin/env python3
import json,glob,sys
pid=sys.argv[1]
seen=set()
for f in sorted(glob.glob('/verif/.work/found/%s/*.json'%pid)):
    d=json.load(open(f))['detail']
    w=d.get('what','')
    if w[:28] in seen: continue
    seen.add(w[:28])
    print('=====',f); print(w); print(d.get('script','')); print({k:(v if len(str(v))<600 else str(v)[:600]) for k,v in d.items() if k not in ('script','what')})
