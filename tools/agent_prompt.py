#!/usr/bin/env python3
"""Print the prompt for a mutation sub-agent: tools/agent_prompt.py C01 [variant-hint]"""
import json, sys
pid = sys.argv[1]
tag = sys.argv[2] if len(sys.argv) > 2 else pid
hint = sys.argv[3] if len(sys.argv) > 3 else ""
p = [json.loads(l) for l in open('/verif/properties.jsonl')]
p = [x for x in p if x['id'] == pid][0]
print(f"""You are helping to evaluate a verification effort for OpenSMT2 (a C++ CDCL(T) SMT solver). Your job is to write ONE realistic
code change ("seeded defect") to the solver that BREAKS the semantic property below, while the code still compiles and the
existing test suite still passes. You work ONLY in your own scratch git worktree: /tmp/wt-{tag} (a checkout of the repository).
Do not read or touch /verif or /repo. Do not commit anything. Write your results to /tmp/seeded-out/{tag}/.

PROPERTY {pid}: {p['title']}
Statement: {p['statement']}
Quantified over: {p['quantifier']['text']}

What I need:
1. A change to the sources under /tmp/wt-{tag}/src that breaks the property. It should look like a plausible programming mistake
   (an off-by-one, a forgotten case, a dropped update, a wrong sign, a stale cache, two sites that each look fine alone), NOT
   sabotage that ordinary use would expose at once. It must need something specific to manifest: a particular multi-step
   sequence of commands, an unusual input shape, a particular option combination, a boundary value, etc. Most ordinary inputs must
   still behave correctly. {hint}
2. The change must compile and the existing test suite must still pass:
     cd /tmp/wt-{tag} && cmake -G Ninja -B _build -DCMAKE_BUILD_TYPE=RelWithDebInfo -DCMAKE_CXX_FLAGS=-Wno-error >/dev/null && cmake --build _build -j8 2>&1 | tail -3
     ctest --test-dir _build -j8 --timeout 900 2>&1 | tail -3        (all tests must pass)
   (Build the unmodified tree first so you can compare behaviour; the build takes a few minutes. Use -j8, other jobs share this machine.)
3. A demonstration: a small SMT-LIB script (run with /tmp/wt-{tag}/_build/opensmt file.smt2) or a small C++ program against the
   library, plus the exact command line, whose output is WRONG with your change and RIGHT without it. Verify both yourself
   (use `git stash` / `git stash pop` or `git diff > patch; git checkout -- .` to switch, rebuilding each time).
4. Write into /tmp/seeded-out/{tag}/ :
     patch.diff   (output of `git -C /tmp/wt-{tag} diff`, must apply with `git apply` to a clean checkout)
     demo.smt2 or demo.cc (+ demo.sh with the exact command to run it, taking the opensmt binary or build dir as $1)
     notes.md     (what the change is, why it breaks the property, what is needed for it to manifest, expected vs wrong output,
                   and confirmation that the test suite passed with the change)
Keep the patch small (ideally < 25 changed lines). Do not modify tests. When done, leave the worktree with your patch applied
and reply with a 5-line summary.""")
