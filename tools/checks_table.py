REF = "z3 5.x + cvc5 1.4 python bindings as reference solvers (R1 agreement/certification rule); our own S-expression reader; timeouts inconclusive"
CHECKS["C01"] = ("property-based differential testing (Hypothesis script generator vs z3+cvc5 with certified witness model)",
                 "Generated scripts over all 17 logics, option vectors and push/pop histories; every unsat answer is compared with certified reference verdicts. Exploration only: absence of a counterexample in the sampled space.",
                 REF, "DESIGN.md §4 C01")
CHECKS["C02"] = ("property-based differential testing (Hypothesis generator with planted boundary shapes vs z3+cvc5 agreement)",
                 "Generated scripts with completeness emphasis (LIA, difference logic with huge constants, arrays, UF+LA); every sat answer must not be refuted by both references. Exploration only.",
                 REF, "DESIGN.md §4 C02")
CHECKS["C04"] = ("property-based differential testing of generated command histories (incremental run vs fresh process per check-sat)",
                 "Generated push/pop/assert/check-sat/query histories; each incremental answer is compared with a fresh solver on exactly the active assertions. Exploration only.",
                 "opensmt itself as the fresh-solver oracle (its absolute correctness is C01/C02); our stack model of SMT-LIB push/pop", "DESIGN.md §4 C04")
CHECKS["C05"] = ("metamorphic property-based testing (same generated script under K generated option vectors and logic embeddings)",
                 "Generated scripts are each run under several generated configurations and wider logics; any sat/unsat contradiction is a violation. Exploration only.",
                 "no external oracle needed for the alarm; references only attribute blame in the report", "DESIGN.md §4 C05")
CHECKS["C03"] = ("property-based testing with an independent model validator (printed definitions substituted for declarations, evaluated by z3, re-checked by cvc5)",
                 "Generated sat-leaning scripts in all model-supporting logics; every get-model / get-value / get-assignment output after sat is validated against the active assertions. Exploration only.",
                 REF, "DESIGN.md §4 C03")
CHECKS["C06"] = ("property-based testing with a core validator (assertion-stack model + z3/cvc5 on the claimed core)",
                 "Generated unsat-leaning scripts with named/unnamed/nested/duplicate names and push/pop; each unsat core is checked for scope, repetition, being current assertions and unsatisfiability. Exploration only.",
                 REF, "DESIGN.md §4 C06")
CHECKS["C07"] = ("property-based testing: each minimal core is re-checked for irreducibility with z3+cvc5 (certified sat after removing one element)",
                 "Generated scripts with :minimal-unsat-cores; every single-element removal from every reported core must be satisfiable. Exploration only.",
                 REF, "DESIGN.md §4 C07")
CHECKS["C08"] = ("property-based testing with an interpolant validator (z3+cvc5 for the two implications, own symbol check)",
                 "Generated unsat scripts with named assertions under all interpolation algorithms/options and push/pop; each binary interpolant is checked for A=>I, I/\\B unsat and the shared-symbol condition. Exploration only.",
                 REF, "DESIGN.md §4 C08")
CHECKS["C09"] = ("property-based testing with a path-interpolant validator (z3+cvc5)",
                 "Generated unsat scripts with k>=3 ordered groups; each result is a Craig interpolant for its prefix and consecutive interpolants satisfy the path property. Exploration only.",
                 REF, "DESIGN.md §4 C09")
HOOKED = "hooked build (-DOPENSMT_VERIF_HOOKS, add-only trace); "
CHECKS["C11"] = ("property-based testing over a guarded trace: every theory clause is checked for validity by z3/cvc5",
                 "Generated scripts run with the theory-clause trace; every distinct conflict / reason / split clause must be valid in the background theory. Exploration only.",
                 HOOKED + REF, "DESIGN.md §4 C11, §5")
CHECKS["C26"] = ("property-based testing over a guarded trace: exact-arithmetic Farkas certificate checker",
                 "Generated arithmetic scripts run with the LA-explanation trace; every conflict's coefficients are re-checked in exact rational arithmetic. Exploration only.",
                 HOOKED + "our own linear-term reader and Fraction arithmetic", "DESIGN.md §4 C26, §5")
CHECKS["C12"] = ("property-based testing over a guarded DRUP-style trace: own reverse-unit-propagation checker",
                 "Generated scripts x engines x SatELite settings run with the clause trace; every derived / learnt / final-conflict clause must be RUP w.r.t. all clauses known before it. Exploration only.",
                 HOOKED + "own RUP checker (harness/rupcheck.cc); deletions ignored, which only makes the check more permissive", "DESIGN.md §4 C12, §5")
CHECKS["C13"] = ("property-based testing over a guarded trace of preprocessed roots: z3/cvc5 decide R=>A and sat(A)=>sat(R)",
                 "Generated scripts in both preprocessing modes with push/pop; at every check-sat the roots handed to the SAT engine must imply the active assertions and be satisfiable whenever they are. Exploration only.",
                 HOOKED + REF, "DESIGN.md §4 C13, §5")
CHECKS["C22"] = ("property-based testing in two arms: (A) theory-solver verdicts recorded inside real search (guarded trace) re-decided by z3/cvc5 on the replayed literal stack; (B) stateful rapidcheck harness driving LASolver, Egraph, IDLSolver, RDLSolver and Egraph+ArraySolver directly with generated declare/assert/backtrack/check histories, libz3 as reference on the asserted literal set",
                 "Arm A (monitor inside search, all theories incl. arrays and UF+LA): every inconsistency verdict must be for an unsat literal set, every complete consistent verdict (no pending splits, integer-free logics) for a sat one. Arm B (harness/h_theory.cc): histories following THandler's call protocol (levels, one backtrack point per literal, deductions drained and asserted back); conflicts only on unsat sets with explanations made of asserted literals, complete SAT only on sat sets, deductions implied. Arrays (Egraph+ArraySolver) are driven by arm B too; their consistency verdicts are judged by arm A only. Exploration only.",
                 HOOKED + REF + "; libz3 in process (arm B)", "DESIGN.md §4 C22, §5, §11")
CHECKS["C20"] = ("property-based differential testing (file mode vs pipe mode) with a layout generator and a hook-enforced read schedule",
                 "Generated valid scripts under adversarial layouts (delimiters inside comments/strings/quoted symbols) and read-size schedules; pipe-mode stdout and exit status must equal file mode byte for byte. Exploration only.",
                 HOOKED + "file mode as reference", "DESIGN.md §4 C20, §5")
CHECKS["C23"] = ("metamorphic property-based testing (same input twice under different address-space layouts, fast and sanitizer builds)",
                 "Generated scripts with all query kinds are run twice per build with ASLR on and different environment size / cwd; outputs must be byte-identical. Exploration only.",
                 "kernel ASLR; no external oracle", "DESIGN.md §4 C23")
CHECKS["C29"] = ("property-based differential testing of out-of-fragment scripts (wider term grammar than the declared logic) against z3+cvc5",
                 "Generated well-sorted scripts outside the declared logic's fragment; errors/unknown are accepted, definitive answers must match the references on the accepted assertions. Exploration only.",
                 REF, "DESIGN.md §4 C29")
CHECKS["C30"] = ("property-based testing with a time-based oracle (tiny qualifying instances x generated configurations, 200x slack, three confirmations)",
                 "Weak by nature: testing observes only 'no answer within T' on tiny instances that the default engine and both references decide in well under a second; three time-outs with 200x slack are reported. Exploration only; liveness cannot be established.",
                 "wall-clock (T = 12 s quick / 60 s thorough, factor 200); z3/cvc5 qualify instances", "DESIGN.md §4 C30, §7")
CHECKS["C15"] = ("in-process property-based testing (rapidcheck register machine + exhaustive boundary pairs) against a GMP reference model, ASan/UBSan on",
                 "FastRational is compared with mpq_class/mpz_class after every step of generated operation sequences and on all pairs of a 378-value boundary set x 22 operations; representation invariants and hashes included. Exploration (the boundary set is enumerated exhaustively).",
                 "GMP as the exact model; sanitizer build of the library", "DESIGN.md §4 C15")
CHECKS["C14"] = ("in-process property-based testing (rapidcheck-driven term builder, libz3 equivalence oracle, ASan/UBSan)",
                 "Generated constructor calls on normal-form arguments with boundary constants and repeated/complementary arguments; libz3 must prove the result equivalent to the operator applied to the arguments. Exploration only.",
                 "libz3 4.8 as semantic oracle; term printing trusted (checked by C17)", "DESIGN.md §4 C14")
CHECKS["C27"] = ("in-process property-based testing + exhaustive boundary constants (rapidcheck, mpz Euclidean reference, libz3 for Int semantics)",
                 "div/mod folding on all pairs of a boundary pool against the Euclidean definition; generated integer relations and div/mod eliminations checked by libz3. Exploration (the constant pool is enumerated exhaustively).",
                 "mpz and libz3 as references", "DESIGN.md §4 C27")
CHECKS["C16"] = ("property-based testing at two entry points: rapidcheck API harness (exact mpq parser as oracle, ASan/UBSan) and Hypothesis executable round trip through get-value/get-model",
                 "Generated literal spellings (zeros everywhere, huge, junk) must denote their exact rational value through mkConst and through the SMT-LIB front end, print back exactly, or be rejected. Exploration only.",
                 "own exact literal parser; our reader of printed values", "DESIGN.md §4 C16")
CHECKS["C28"] = ("in-process stateful property-based testing (rapidcheck sequences of constructor calls against a map model of identities; one long-lived QF_AUFLIRA store and a fresh QF_LIA/QF_LRA store per case with generated creation order)",
                 "Generated sequences of term constructions with re-construction and permuted commutative arguments; identity, printing injectivity and subterm-before-term order are checked after every sequence. Exploration only.",
                 "own model of (constructor, arguments) -> identity", "DESIGN.md §4 C28")
CHECKS["C24"] = ("in-process property-based testing with real threads under ThreadSanitizer and ASan/UBSan (rapidcheck-drawn instance sets and start delays); concurrent answers and the printed normal forms of all built constraints are compared with the solo run",
                 "Weak by nature: interleavings are sampled by the OS scheduler, not enumerated. Concurrent answers must equal solo answers and no sanitizer may report. Exploration only.",
                 "TSan happens-before detection on the executions that occur; solo run as reference", "DESIGN.md §4 C24, §7")
CHECKS["C25"] = ("in-process property-based testing with a stopper thread, at generated delays and at generated consistent points of the search (harness-owned schedule through the notifyConsistency hook), under ThreadSanitizer and ASan/UBSan",
                 "Two modes: the stop request is placed by a sampled wall-clock delay (landing point measured), or issued while the search waits at its K-th consistent point (K generated). Result must be unknown or the solo answer, no sanitizer report. Other landing points inside propagation or theory checks are only sampled. Exploration only.",
                 "TSan happens-before detection; solo run as reference", "DESIGN.md §4 C25, §7")
CHECKS["C18"] = ("grammar-based fault injection (Hypothesis) and token-level mutation of the regression corpus, run on the ASan/UBSan executable as file and pipe input; metamorphic renaming of '%' to '$' in symbol names for the diagnostics",
                 "Generated near-valid scripts and mutated regression files; any crash, abort, uncaught exception, sanitizer report, unexpected exit status, unsignalled error or hang without check-sat is a violation (known crash sites are keyed by fingerprint). The in-process libFuzzer target of the design (fz_interpret) is not built. Exploration only.",
                 "sanitizer build; our S-expression reader decides 'unbalanced'", "DESIGN.md §4 C18")
CHECKS["C21"] = ("model-based (stateful) property-based testing: generated command histories against a Python scope model",
                 "Generated push/pop/:named/define-fun histories with re-introductions and name-printing queries; every accept/reject decision and every printed name is compared with the scope model. Exploration only.",
                 "our scope model of SMT-LIB assertion-stack scoping and :global-declarations", "DESIGN.md §4 C21")
CHECKS["C19"] = ("metamorphic property-based testing: valid history H vs H with generated rejected commands inserted; answers compared literally, artefacts by the C03/C06/C08 validators",
                 "Generated histories with 1-3 rejected commands from a catalogue of interpreter failure points; the rest of the script must behave as if the commands were omitted (probe commands re-use the names they mention). Exploration only.",
                 REF + "; only inserted commands that really answered (error ..) are judged", "DESIGN.md §4 C19")
CHECKS["C17"] = ("round-trip property-based testing: generated scripts with tortured (quoted / reserved / clashing) names; every printed model, value, core, interpolant and dumped query is read back by z3/cvc5/opensmt and compared semantically",
                 "Generated scripts over a name-torture pool; printed SMT-LIB must be readable by another tool and denote the same object. Known findings are keyed by violation kind plus the name feature that triggers them (coarser than for other properties). Exploration only.",
                 "z3 python and cvc5 as independent readers (|as| and |_| excluded: z3 refuses them as declared names)", "DESIGN.md §4 C17")
CHECKS["C10"] = ("property-based testing with an independent proof checker (own reader of the printed proof + resolution replay + z3/cvc5 for leaves)",
                 "Generated unsat scripts with :produce-proofs and push/pop; every printed proof is replayed step by step, its leaves are tied to active levels and checked to follow from the active assertions or to be valid. Exploration only.",
                 "own proof reader/checker; z3 (+cvc5) for leaf implication", "DESIGN.md §4 C10")
