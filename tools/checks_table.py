REF = "z3 5.x + cvc5 1.4 python bindings as reference solvers (R1 agreement/certification rule); our own S-expression reader; timeouts inconclusive"
CHECKS["C01"] = ("property-based differential testing (Hypothesis script generator vs z3+cvc5 with certified witness model)",
                 "Generated scripts over all 17 logics, option vectors and push/pop histories; every unsat answer is compared with certified reference verdicts. Exploration only: absence of a counterexample in the sampled space.",
                 REF, "DESIGN.md §4 C01")
