#!/bin/sh
# in-process harnesses against the sanitizer build of the library (rebuilt when a harness source or the library changed)
cd "$(dirname "$0")/.." || exit 2
set -e
OUT=.build/harness
LIB=.build/san/lib/libopensmt.a
REPO=${VERIF_REPO:-/repo}
[ -f $LIB ] || exit 0
CXX=clang++-14; command -v $CXX >/dev/null 2>&1 || CXX=clang++
FLAGS="-std=c++20 -O1 -g -fsanitize=address,undefined -fsanitize-recover=undefined -DOPENSMT_VERIF_HOOKS -I$REPO/src -Iharness"
# ThreadSanitizer twin of the threads harness
TLIB=.build/tsan/lib/libopensmt.a
for h in "$@"; do
  if [ "$h" = h_threads ] && [ -f $TLIB ]; then
    if [ ! -x $OUT/h_threads_tsan ] || [ harness/h_threads.cc -nt $OUT/h_threads_tsan ] || [ $TLIB -nt $OUT/h_threads_tsan ]; then
      $CXX -std=c++20 -O1 -g -fsanitize=thread -DOPENSMT_VERIF_HOOKS -I$REPO/src -Iharness -o $OUT/h_threads_tsan harness/h_threads.cc $TLIB -lrapidcheck -lgmpxx -lgmp -lpthread
      echo built h_threads_tsan
    fi
  fi
done
for h in "$@"; do
  src=harness/$h.cc
  [ -f $src ] || continue
  if [ ! -x $OUT/$h ] || [ $src -nt $OUT/$h ] || [ $LIB -nt $OUT/$h ] || [ harness/common.h -nt $OUT/$h ]; then
    extra=""
    case $h in h_mkterm|h_round|h_theory) extra="-lz3";; esac
    $CXX $FLAGS -o $OUT/$h $src $LIB -lrapidcheck -lgmpxx -lgmp -lpthread $extra
    echo built $h
  fi
done
