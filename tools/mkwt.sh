#!/bin/sh
# create a scratch worktree of /repo for a mutation sub-agent: tools/mkwt.sh <tag>
set -e
d=/tmp/wt-$1
git -C /repo worktree add --detach "$d" HEAD >/dev/null 2>&1
mkdir -p /tmp/seeded-out/$1
echo "$d"
