#!/usr/bin/env python3
"""tools/triage.py Cxx file.json...: replay found files with the current code and say whether a known signature matches"""
import sys, json, importlib, os
sys.path.insert(0, os.path.dirname(os.path.dirname(os.path.abspath(__file__))))
from vlib import driver
pid = sys.argv[1]
mod = importlib.import_module('vlib.props.' + pid.lower())
ctx = driver.Ctx('quick', 1)
known = driver.load_known(pid)
for f in sys.argv[2:]:
    d = json.load(open(f))
    case = d['case']
    r = mod.check(case, ctx)
    e = driver.match_known(mod, known, case, r) if r.status == 'violation' else None
    print(os.path.basename(f), r.status, r.kind, '-> known:' + e['id'] if e else '-> UNMATCHED' if r.status == 'violation' else '')
