#!/usr/bin/env python3
"""Convert an .smt2 file into the JSON script case used by the checks: tools/smt2case.py in.smt2 > case.json"""
import json, os, sys
sys.path.insert(0, os.path.dirname(os.path.dirname(os.path.abspath(__file__))))
from vlib import sexpr


def convert(text):
    s = {"options": [], "logic": None, "lk": None, "decls": [], "cmds": []}
    for e in sexpr.parse_all(text):
        k = e[0]
        if k == "set-option":
            s["options"].append([e[1], sexpr.to_str(e[2])])
        elif k == "set-logic":
            s["logic"] = e[1]
            s["lk"] = e[1]
        elif k in ("declare-fun", "declare-sort", "declare-const"):
            if k == "declare-const":
                s["decls"].append("(declare-fun %s () %s)" % (e[1], sexpr.to_str(e[2])))
            else:
                s["decls"].append(sexpr.to_str(e))
        elif k == "assert":
            t = e[1]
            if isinstance(t, list) and len(t) == 4 and t[0] == "!" and t[2] == ":named":
                s["cmds"].append(["assert-named", sexpr.to_str(t[1]), t[3]])
            else:
                s["cmds"].append(["assert", sexpr.to_str(t)])
        elif k in ("push", "pop"):
            s["cmds"].append([k, int(e[1]) if len(e) > 1 else 1])
        elif k in ("check-sat", "get-model", "get-assignment", "get-unsat-core", "get-proof"):
            s["cmds"].append([k])
        elif k == "get-value":
            s["cmds"].append(["get-value", [sexpr.to_str(x) for x in e[1]]])
        elif k == "get-interpolants":
            s["cmds"].append(["get-interpolants", [sexpr.to_str(x) for x in e[1:]]])
        elif k == "define-fun":
            s["cmds"].append(["define-fun", e[1], " ".join(sexpr.to_str(p) for p in e[2]), sexpr.to_str(e[3]), sexpr.to_str(e[4])])
        elif k in ("exit", "set-info"):
            pass
        else:
            s["cmds"].append(["raw", sexpr.to_str(e)])
    return s


if __name__ == "__main__":
    json.dump({"case": convert(open(sys.argv[1]).read())}, sys.stdout, indent=1)
