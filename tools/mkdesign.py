#!/usr/bin/env python3
"""Regenerate the fixed / known-finding bullet lists of DESIGN.md section 11.2 from known_findings.json."""
import json, os, re
ROOT = os.path.dirname(os.path.dirname(os.path.abspath(__file__)))
k = json.load(open(os.path.join(ROOT, "known_findings.json")))["findings"]
fixed = ["* " + (e["what"][7:] if e["what"].startswith("fixed: ") else "property=%s %s %s" % (e["property"], e.get("commit", "?")[:7], e["what"])) for e in k if e["status"] == "fixed"]
known = ["* **%s / %s** — %s" % (e["property"], e["id"], e["what"]) for e in sorted(
    (e for e in k if e["status"] == "known"), key=lambda e: (e["property"], e["id"]))]
p = os.path.join(ROOT, "DESIGN.md")
s = open(p).read()
def put(s, tag, lines):
    b, e = "<!-- BEGIN %s -->" % tag, "<!-- END %s -->" % tag
    i, j = s.index(b), s.index(e)
    return s[:i + len(b)] + "\n" + "\n".join(lines) + "\n" + s[j:]
s = put(s, "fixed", fixed)
s = put(s, "known", known)
open(p, "w").write(s)
print("fixed %d known %d" % (len(fixed), len(known)))
