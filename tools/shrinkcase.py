#!/usr/bin/env python3
"""tools/shrinkcase.py Cxx in.json out.json : structurally minimise a failing script case with the property's oracle"""
import sys, json, importlib, os
sys.path.insert(0, os.path.dirname(os.path.dirname(os.path.abspath(__file__))))
from vlib import driver, shrink, gen
pid = sys.argv[1]
mod = importlib.import_module('vlib.props.' + pid.lower())
ctx = driver.Ctx('quick', 1)
d = json.load(open(sys.argv[2]))
case = d['case']
r0 = mod.check(case, ctx)
print("initial:", r0.status, r0.kind)
k0 = r0.kind
c = shrink.shrink(case, lambda c: (lambda r: r.status == 'violation' and r.kind == k0)(mod.check(c, ctx)), max_s=300)
json.dump({"case": c}, open(sys.argv[3], 'w'), indent=1)
print(gen.render(c) if 'cmds' in c else json.dumps(c)[:2000])
r = mod.check(c, ctx)
print({k: str(v)[:400] for k, v in (r.detail or {}).items() if k not in ('script',)})
