#!/bin/sh
# run every registered quick check on /repo's working tree, one after the other (evidence files are rewritten)
cd "$(dirname "$0")/.." || exit 2
out=${1:-.work/run_all_quick.log}
: > "$out"
for i in $(seq 1 30); do
  c=$(printf "C%02d" $i)
  echo "== $c $(date +%H:%M:%S)" >> "$out"
  VERIF_SEED=${VERIF_SEED:-1} ./check $c --tier quick 2>&1 | grep -v "^build\|WARNING" | grep "VIOLATION\|KNOWN-FINDING\|HARNESS-ERROR\|tier=quick" | cut -c1-220 >> "$out"
  echo "   exit=$?" >> "$out"
done
echo "== done $(date +%H:%M:%S)" >> "$out"
