#!/bin/sh
# MANIFEST.setup_cmd: build every variant of /repo's current tree and the C++ harnesses, offline.
cd "$(dirname "$0")" || exit 2
set -e
PY=/opt/veriftools/pyvenv/bin/python3
$PY -m vlib.build ensure fast san tsan
[ -x tools/build_harness.sh ] && tools/build_harness.sh || true
echo setup done
