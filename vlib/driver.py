"""Campaign driver: Hypothesis workers in parallel processes, replay tier, known findings, evidence.

A property module provides:
  ID, RULE, VARIANTS (list of build variants), BUDGET = {"quick": (cases, wall_s), "thorough": (...)}
  generate(rnd, tier) -> case (JSON-able)
  check(case, ctx) -> Result
  optional: SIGNATURES = {name: fn(case, result) -> bool}   (for known findings)
            setup(ctx)  (called once per worker)
"""
import argparse, hashlib, importlib, json, multiprocessing as mp, os, sys, time, traceback

from . import build

ROOT = build.ROOT


class Result:
    """status: ok | inconclusive | violation.  nt_key: canonical text when the case is non-trivial (else None)."""

    def __init__(self, status="ok", nt_key=None, classes=(), detail=None, sig=None, evals=1, kind=None):
        self.status, self.nt_key, self.classes, self.detail, self.sig = status, nt_key, list(classes), detail, sig
        self.evals = evals
        self.kind = kind if kind is not None else (detail.get("what", "").split(":")[0] if isinstance(detail, dict) else None)

    @staticmethod
    def violation(detail, classes=(), nt_key=None):
        return Result("violation", nt_key, classes, detail)


class Ctx:
    def __init__(self, tier, seed, worker=0):
        self.tier, self.seed, self.worker = tier, seed, worker
        self.cache = {}


def load_known(pid):
    p = os.path.join(ROOT, "known_findings.json")
    if not os.path.exists(p):
        return []
    data = json.load(open(p))
    return [e for e in data.get("findings", []) if e.get("property") == pid and e.get("status") == "known"]


def match_known(mod, known, case, res):
    sigs = getattr(mod, "SIGNATURES", {})
    for e in known:
        fn = sigs.get(e.get("signature"))
        if fn is None:
            continue
        try:
            if fn(case, res):
                return e
        except Exception:
            continue
    return None


def _h(s):
    return hashlib.sha1(s.encode("utf-8", "replace")).hexdigest()[:16]


def worker_main(args):
    modname, tier, seed, widx, ncases, deadline, outpath = args
    import random
    from hypothesis import given, settings, seed as hseed, HealthCheck, Phase, strategies as st
    mod = importlib.import_module(modname)
    ctx = Ctx(tier, seed, widx)
    if hasattr(mod, "setup"):
        mod.setup(ctx)
    known = load_known(mod.ID)
    stats = {"evaluations": 0, "nt": set(), "classes": {}, "inconclusive": 0, "excluded_known": 0, "samples": [],
             "violation": None, "errors": [], "budget_exhausted": False, "generated": 0}
    state = {"last_fail": None}

    class Viol(Exception):
        pass

    def one(rnd):
        case = mod.generate(rnd, tier)
        stats["generated"] += 1
        res = mod.check(case, ctx)
        stats["evaluations"] += res.evals
        for c in res.classes:
            stats["classes"][c] = stats["classes"].get(c, 0) + 1
        if res.status == "inconclusive":
            stats["inconclusive"] += 1
        if res.nt_key is not None:
            h = _h(res.nt_key)
            if h not in stats["nt"] and len(stats["samples"]) < 3 and res.status != "violation":
                stats["samples"].append(mod.sample(case, res) if hasattr(mod, "sample") else case)
            stats["nt"].add(h)
        if res.status == "violation":
            e = match_known(mod, known, case, res)
            if e is not None:
                stats["excluded_known"] += 1
                stats["classes"]["known:" + e["id"]] = stats["classes"].get("known:" + e["id"], 0) + 1
                return
            state["last_fail"] = (case, res.detail)
            raise Viol()

    # batches: the wall-clock safety net is only consulted *between* Hypothesis runs, never inside one
    batch = int(getattr(mod, "BATCH", 25))
    done = 0
    bidx = 0
    while done < ncases:
        if time.time() > deadline:
            stats["budget_exhausted"] = True
            break
        n = min(batch, ncases - done)
        test = settings(max_examples=n, database=None, deadline=None, derandomize=False,
                        suppress_health_check=list(HealthCheck), phases=[Phase.generate],
                        report_multiple_bugs=False, print_blob=False)(
            hseed((seed * 1000003 + widx) * 100003 + bidx)(given(st.randoms(use_true_random=False))(one)))
        bidx += 1
        done += n
        try:
            test()
        except Viol:
            stats["violation"] = {"case": state["last_fail"][0], "detail": state["last_fail"][1]}
            break
        except BaseException as e:  # harness error: report, do not hide
            if state["last_fail"] is not None:
                stats["violation"] = {"case": state["last_fail"][0], "detail": state["last_fail"][1]}
            else:
                stats["errors"].append("".join(traceback.format_exception(type(e), e, e.__traceback__))[-3000:])
            break
    stats["nt"] = sorted(stats["nt"])
    with open(outpath, "w") as f:
        json.dump(stats, f)
    return outpath


def replay_case(mod, case, ctx, times=3):
    """Run a saved case through the oracle `times` times; returns list of Results."""
    out = []
    for _ in range(times):
        out.append(mod.check(case, ctx))
    return out


def write_evidence(mod, tier, seed, wall, cov, violations, assumptions=None):
    ev = {"property_id": mod.ID, "tier": tier, "seed": seed, "level": "exploration", "coverage": cov,
          "assumptions": assumptions or getattr(mod, "ASSUMPTIONS", []), "wall_s": round(wall, 2),
          "violations": violations}
    os.makedirs(os.path.join(ROOT, "evidence"), exist_ok=True)
    with open(os.path.join(ROOT, "evidence", mod.ID + ".json"), "w") as f:
        json.dump(ev, f, indent=1, default=str)


def run_property(modname, tier, seed, replay=None, jobs=None):
    t0 = time.time()
    mod = importlib.import_module(modname)
    pid = mod.ID
    for v in mod.VARIANTS:
        build.ensure(v)
    if not replay:
        # cases found by an earlier run are stale (cleared before prepare(), whose harness part saves its failures there too)
        import shutil
        shutil.rmtree(os.path.join(ROOT, ".work", "found", pid), ignore_errors=True)
    if hasattr(mod, "prepare") and (not replay or getattr(mod, "PREPARE_ON_REPLAY", True)):
        import inspect
        if len(inspect.signature(mod.prepare).parameters) >= 2:
            mod.prepare(tier, seed)
        else:
            mod.prepare(tier)
    ctx = Ctx(tier, seed)
    if hasattr(mod, "setup"):
        mod.setup(ctx)
    if replay and hasattr(mod, "custom_replay"):
        ok, msg = mod.custom_replay(replay)
        print("replay %s: %s" % (replay, msg))
        if not ok:
            print("VIOLATION property=%s replay=%s" % (pid, replay))
            return 1
        return 0
    if replay:
        data = json.load(open(replay))
        case = data["case"] if "case" in data else data
        res = mod.check(case, ctx)
        print("replay %s: status=%s detail=%s" % (replay, res.status, json.dumps(res.detail, default=str)[:2000]))
        if res.status == "violation":
            print("VIOLATION property=%s replay=%s" % (pid, replay))
            return 1
        return 0

    if hasattr(mod, "custom_run") and not replay:
        out = mod.custom_run(tier, seed)
        cov = out["coverage"]
        cov.setdefault("rule", mod.RULE)
        if not cov.get("samples"):
            cov["samples"] = ["(none)"]
        write_evidence(mod, tier, seed, time.time() - t0, cov, len(out["violations"]))
        for l in out.get("known_lines", []):
            print(l)
        print("%s tier=%s seed=%d evaluations=%d nontrivial=%d wall=%.1fs" % (
            pid, tier, seed, cov.get("evaluations", 0), cov.get("distinct_nontrivial", 0), time.time() - t0))
        print("classes: " + json.dumps(cov.get("classes", {})))
        for v in out["violations"]:
            print("VIOLATION property=%s replay=%s" % (pid, v))
        return 1 if out["violations"] else 0
    known = load_known(pid)
    violations = []
    known_lines = []
    replayed = 0
    # ---- replay tier: every saved file under replays/<id>/
    rdir = os.path.join(ROOT, "replays", pid)
    known_by_replay = {e.get("replay"): e for e in known}
    nt = set()
    classes = {}
    samples = []
    evaluations = 0
    if os.path.isdir(rdir):
        for fn in sorted(os.listdir(rdir)):
            if not fn.endswith(".json"):
                continue
            path = os.path.join(rdir, fn)
            rel = os.path.relpath(path, ROOT)
            try:
                data = json.load(open(path))
            except Exception:
                continue
            case = data["case"] if "case" in data else data
            res = mod.check(case, ctx)
            replayed += 1
            evaluations += res.evals
            if res.nt_key is not None:
                nt.add(_h(res.nt_key))
            for c in res.classes:
                classes[c] = classes.get(c, 0) + 1
            if res.status == "violation":
                e = known_by_replay.get(rel) or match_known(mod, known, case, res)
                if e is not None:
                    line = "KNOWN-FINDING: property=%s %s" % (pid, e["what"])
                    if line not in known_lines:
                        known_lines.append(line)
                else:
                    # confirm 3x
                    again = replay_case(mod, case, ctx, 2)
                    if all(r.status == "violation" for r in again):
                        violations.append(rel)
    # ---- generated search
    ncases, wall = mod.BUDGET[tier]
    jobs = jobs or min(16, os.cpu_count() or 4)
    if getattr(mod, "JOBS", None):
        jobs = min(jobs, mod.JOBS)
    per = (ncases + jobs - 1) // jobs
    deadline = time.time() + wall
    wdir = os.path.join(ROOT, ".work", "stats")
    os.makedirs(wdir, exist_ok=True)
    args = [(modname, tier, seed, w, per, deadline, os.path.join(wdir, "%s_%d_%d.json" % (pid, os.getpid(), w)))
            for w in range(jobs)]
    mpctx = mp.get_context("fork")
    with mpctx.Pool(jobs) as pool:
        outs = pool.map(worker_main, args)
    inconclusive = excluded = 0
    generated = 0
    errors = []
    budget_exhausted = False
    found = []
    for o in outs:
        st = json.load(open(o))
        os.unlink(o)
        evaluations += st["evaluations"]
        generated += st["generated"]
        nt.update(st["nt"])
        for k, v in st["classes"].items():
            classes[k] = classes.get(k, 0) + v
        inconclusive += st["inconclusive"]
        excluded += st["excluded_known"]
        budget_exhausted = budget_exhausted or st["budget_exhausted"]
        for s in st["samples"]:
            if len(samples) < 5:
                samples.append(s)
        errors += st["errors"]
        if st["violation"]:
            found.append(st["violation"])
    # ---- confirm found violations (3x replay from the saved file), de-duplicate
    os.makedirs(rdir, exist_ok=True)
    # at most four of them are confirmed and minimised (smallest first): one violation decides the run, and with an expensive
    # oracle (C30 waits for time-outs) a dozen minimisations would take an hour
    found.sort(key=lambda v: len(json.dumps(v["case"], default=str)))
    classes["found_by_workers"] = len(found)
    for v in found[:4]:
        case = v["case"]
        again = replay_case(mod, case, ctx, 3)
        if not all(r.status == "violation" for r in again):
            classes["unconfirmed_violation"] = classes.get("unconfirmed_violation", 0) + 1
            continue
        e = match_known(mod, known, case, again[0])
        if e is not None:
            excluded += 1
            continue
        if getattr(mod, "SHRINK", "script") == "script" and isinstance(case, dict) and "cmds" in case:
            from . import shrink as _shr

            kind0 = again[0].kind

            def still(c, _e=None):
                r = mod.check(c, ctx)
                return r.status == "violation" and r.kind == kind0 and match_known(mod, known, c, r) is None
            try:
                case = _shr.shrink(case, still)
            except Exception:
                pass
            again = replay_case(mod, case, ctx, 1)
        elif hasattr(mod, "shrink"):
            try:
                case = mod.shrink(case, ctx)
            except Exception:
                pass
            again = replay_case(mod, case, ctx, 1)
        name = "found_%s_%s.json" % (tier, _h(json.dumps(case, sort_keys=True)))
        outdir = os.path.join(ROOT, "replays", pid) if os.environ.get("VERIF_KEEP_FOUND") else \
            os.path.join(ROOT, ".work", "found", pid)
        os.makedirs(outdir, exist_ok=True)
        path = os.path.join(outdir, name)
        with open(path, "w") as f:
            json.dump({"property": pid, "case": case, "detail": again[0].detail}, f, indent=1, default=str)
        violations.append(os.path.relpath(path, ROOT))
    # known findings that have a signature but no replay file still get their line if they were excluded
    for e in known:
        if classes.get("known:" + e["id"]):
            line = "KNOWN-FINDING: property=%s %s" % (pid, e["what"])
            if line not in known_lines:
                known_lines.append(line)
    if not samples:
        samples = ["(no non-trivial case in this run)"]
    cov = {"evaluations": evaluations, "distinct_nontrivial": len(nt), "rule": mod.RULE, "samples": samples,
           "classes": dict(sorted(classes.items())), "inconclusive": inconclusive, "excluded_known": excluded,
           "generated_cases": generated, "replayed_files": replayed, "budget_exhausted": budget_exhausted,
           "harness_errors": errors[:3], "jobs": jobs}
    if hasattr(mod, "extra_coverage"):
        ex = mod.extra_coverage()
        cov["evaluations"] += ex.pop("add_evaluations", 0)
        cov["distinct_nontrivial"] += ex.pop("add_nontrivial", 0)
        for smp in ex.pop("add_samples", []):
            if len(cov["samples"]) < 8:
                cov["samples"].append(smp)
        cov.update(ex)
    if hasattr(mod, "extra_violations"):
        violations += mod.extra_violations()
    if hasattr(mod, "extra_known_lines"):
        for l in mod.extra_known_lines():
            if l not in known_lines:
                known_lines.append(l)
    write_evidence(mod, tier, seed, time.time() - t0, cov, len(violations))
    for l in known_lines:
        print(l)
    print("%s tier=%s seed=%d evaluations=%d nontrivial=%d inconclusive=%d excluded_known=%d wall=%.1fs" % (
        pid, tier, seed, cov["evaluations"], cov["distinct_nontrivial"], inconclusive, excluded, time.time() - t0))
    print("classes: " + json.dumps(dict(sorted(classes.items()))))
    if errors:
        print("HARNESS-ERROR (not a violation):\n" + errors[0])
        return 2 if not violations else 1
    for v in violations:
        print("VIOLATION property=%s replay=%s" % (pid, v))
    return 1 if violations else 0


def main():
    ap = argparse.ArgumentParser()
    ap.add_argument("prop")
    ap.add_argument("--tier", default=os.environ.get("VERIF_TIER", "quick"))
    ap.add_argument("--replay")
    ap.add_argument("--jobs", type=int)
    a = ap.parse_args()
    seed = int(os.environ.get("VERIF_SEED", "1") or 1)
    pid = a.prop.upper()
    modname = "vlib.props.%s" % pid.lower()
    sys.exit(run_property(modname, a.tier, seed, a.replay, a.jobs))


if __name__ == "__main__":
    main()
