"""Exact linear-expression reader for opensmt's printed arithmetic terms (Fractions; opaque subterms are variables)."""
from fractions import Fraction
from . import sexpr


def lin(e):
    """-> (dict key->Fraction, const Fraction). e is a parsed s-expression."""
    if isinstance(e, str):
        try:
            return {}, sexpr.num_value(e)
        except Exception:
            return {e: Fraction(1)}, Fraction(0)
    op = e[0]
    if sexpr.is_num(e):
        return {}, sexpr.num_value(e)
    if op == "+":
        vs, c = {}, Fraction(0)
        for a in e[1:]:
            v2, c2 = lin(a)
            c += c2
            for k, x in v2.items():
                vs[k] = vs.get(k, 0) + x
        return vs, c
    if op == "-":
        if len(e) == 2:
            v, c = lin(e[1])
            return {k: -x for k, x in v.items()}, -c
        vs, c = lin(e[1])
        vs = dict(vs)
        for a in e[2:]:
            v2, c2 = lin(a)
            c -= c2
            for k, x in v2.items():
                vs[k] = vs.get(k, 0) - x
        return vs, c
    if op == "*" and len(e) == 3:
        v1, c1 = lin(e[1])
        v2, c2 = lin(e[2])
        if not v1:
            return {k: x * c1 for k, x in v2.items()}, c1 * c2
        if not v2:
            return {k: x * c2 for k, x in v1.items()}, c1 * c2
    if op == "/" and len(e) == 3:
        v1, c1 = lin(e[1])
        v2, c2 = lin(e[2])
        if not v2 and c2 != 0:
            return {k: x / c2 for k, x in v1.items()}, c1 / c2
    return {sexpr.to_str(e): Fraction(1)}, Fraction(0)


def clean(vs):
    return {k: v for k, v in vs.items() if v != 0}
