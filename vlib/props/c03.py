"""C03 — models, values and assignments produced after sat are correct."""
import json
from .. import gen, osmt, ref, sexpr, validators as V
from ..driver import Result
from . import satcommon

ID = "C03"
VARIANTS = ["fast"]
BUDGET = {"quick": (1500, 120), "thorough": (40000, 1500)}
RULE = ("Hypothesis-generated satisfiable-leaning scripts in the model-supporting logics (PROP, QF_UF, LRA, LIA, RDL, IDL, UFLRA, "
        "UFLIA, UFRDL, UFIDL) with :produce-models (+ :produce-assignments and named terms, top-level and nested, in half of the "
        "cases), all engines/options, push/pop histories; after every check-sat: get-model, get-value on 1-5 generated terms, "
        "get-assignment. Oracle: the printed definitions replace the declarations (abstract values become pairwise distinct "
        "constants) and z3 must prove every active assertion, every (term = printed value) and every (named term = printed "
        "truth value); every declared symbol must be defined with its declared rank; a refutation by z3 is re-checked by cvc5. "
        "Non-trivial = sat answer whose model defines >= 1 function of arity >= 1 or >= 2 numeric constants and all queries "
        "were answered; distinct by (options, active set).")
ASSUMPTIONS = ["z3 evaluates the printed definitions; failures re-checked with cvc5", "timeouts inconclusive"]
KEYS = gen.MODEL_LOGIC_KEYS


def generate(rnd, tier):
    tracking = {"models"}
    if rnd.random() < 0.5:
        tracking.add("assignments")
    script, sig, tg = gen.gen_script(rnd, tier, logic_keys=KEYS, tracking=tracking, queries=False,
                                     named=0.5 if "assignments" in tracking else 0.0, planted_p=0.35)
    L = gen.LOGICS[script["lk"]]
    # nested names
    kc = 0
    cmds = []
    for c in script["cmds"]:
        if c[0] == "assert" and "assignments" in tracking and rnd.random() < 0.3:
            kc += 1
            a, b = tg.boolean(rnd.randint(0, 1)), tg.boolean(rnd.randint(0, 1))
            op = rnd.choice(["or", "and", "=>", "xor"])
            c = ["assert", "(%s (! %s :named k%d) (! %s :named k%d) %s)" % (
                "or" if op in ("or",) else "and" if op == "and" else "or", a, kc * 2, b, kc * 2 + 1, c[1])]
        cmds.append(c)
        if c[0] == "check-sat" and rnd.random() < 0.92:
            cmds.append(["get-model"])
            sorts = ["Bool"] + [s for s in tg.nonbool_sorts() if not s.startswith("(Array")]
            terms = [tg.term(rnd.choice(sorts), rnd.randint(0, 2)) for _ in range(rnd.randint(1, 5))]
            cmds.append(["get-value", terms])
            if "assignments" in tracking:
                cmds.append(["get-assignment"])
    script["cmds"] = cmds
    return script


NAMED = None


def named_terms(term, acc):
    try:
        e = sexpr.parse_one(term)
    except Exception:
        return

    def walk(x):
        if isinstance(x, list):
            if len(x) == 4 and x[0] == "!" and x[2] == ":named":
                acc[x[3]] = sexpr.to_str(x[1])
            for y in x:
                walk(y)
    walk(e)


def strip_names(term):
    try:
        e = sexpr.parse_one(term)
    except Exception:
        return term

    def walk(x):
        if isinstance(x, list):
            if len(x) == 4 and x[0] == "!" and x[2] == ":named":
                return walk(x[1])
            return [walk(y) for y in x]
        return x
    return sexpr.to_str(walk(e))


def holds(prelude, formula, tms):
    """z3 first (definitions make this an evaluation); a refutation must not be contradicted by cvc5."""
    f = V.replace_abstract(formula)
    zr, zd = ref.z3_check(prelude, ["(not %s)" % f], tms)
    if zr == "unsat":
        return True, None
    if zr == "sat":
        cr, _ = ref.cvc5_check(prelude, ["(not %s)" % f], tms)
        if cr == "unsat":
            return None, "references disagree"
        return False, zd
    return None, "%s %s" % (zr, zd)


def check(case, ctx):
    script = case
    tms = 5000 if ctx.tier == "quick" else 15000
    r = osmt.run_marked(script, "fast", satcommon.opensmt_timeout(script, ctx.tier))
    classes = ["logic:" + script.get("lk", script["logic"])]
    if r.out.timeout:
        return Result("inconclusive", None, classes + ["opensmt-timeout"])
    if r.out.crashed():
        return Result("inconclusive", None, classes + ["opensmt-crash"])
    cmds = script["cmds"]
    nt_key = None
    status = "ok"
    state = None  # answer of the last check-sat
    prelude = None
    visible_names = {}

    def viol(what, idx, extra=None):
        d = {"what": what, "cmd_index": idx, "script": gen.render(script), "response": r.resp.get(idx)}
        if extra:
            d.update(extra)
        return Result("violation", nt_key, classes + ["viol:" + what.split(":")[0]], d)

    soft = []  # violations that do not stop the examination of the rest of the script
    glob = gen.opt_get(script, ":global-declarations") == "true"
    real_only = not any(" Int" in d or "(Int" in d for d in script["decls"]) and script["logic"] not in ("QF_LIA", "QF_IDL", "QF_UFLIA", "QF_UFIDL")
    all_names = {}
    for idx, c, active in gen.stack_walk(script):
        k = c[0]
        if k in ("assert", "assert-named"):
            if k == "assert-named":
                all_names[c[2]] = c[1]
            named_terms(c[1], all_names)
        if k == "check-sat":
            state = r.answer(idx)
            classes.append("answer:" + str(state))
            prelude = None
            act_terms = [strip_names(t) for t, _ in active]
            visible_names = {}
            for t, n in active:
                if n:
                    visible_names[n] = strip_names(t)
                named_terms(t, visible_names)
            if glob:
                # with global declarations names survive pop (C21); every name introduced so far is reported
                visible_names = dict(all_names)
            for n in list(visible_names):
                visible_names[n] = strip_names(visible_names[n])
            macros = gen.defs_text(script, idx)
            answered = set()
            continue
        if state != "sat" or k not in ("get-model", "get-value", "get-assignment"):
            continue
        resp = r.resp.get(idx) or []
        if any(x.startswith("(error") for x in resp):
            msg = [x for x in resp if x.startswith("(error")][0]
            return viol("error-response %s %s: after sat" % (k, msg[:70].replace(":", ";")), idx)
        if len(resp) != 1:
            return viol("malformed-response: %s printed %d top-level items" % (k, len(resp)), idx)
        text = resp[0]
        if real_only:
            text = V.realize(text)
        if k == "get-model":
            try:
                prelude, problems = V.model_prelude(script["decls"], text)
            except (V.ModelError, sexpr.ParseError) as e:
                return viol("unparsable-model: %s" % e, idx)
            if problems:
                return viol("model-shape: " + "; ".join(problems[:3]), idx)
            prelude = prelude + macros
            model_text = text
            nfun = sum(1 for l in prelude if l.startswith("(define-fun") and "((" in l.split(")")[0] + ")")
            if act_terms:
                ok, why = holds(prelude, "(and true %s)" % " ".join(act_terms), tms)
                if ok is False:
                    # find one falsified assertion for the report
                    bad = None
                    for t in act_terms:
                        o2, _ = holds(prelude, t, tms)
                        if o2 is False:
                            bad = t
                            break
                    rr = ref.decide(script["decls"] + macros, act_terms, tms)
                    if rr[0] == "unsat":
                        # the sat answer itself is wrong (C02's business); reported here under its own kind
                        return viol("model-of-unsat-set: sat answered on an unsatisfiable set, model falsifies an assertion",
                                    idx, {"assertion": bad, "model": text})
                    return viol("model-falsifies-assertion", idx, {"assertion": bad, "model": text})
                if ok is None:
                    status = "inconclusive"
                    classes.append("ref-unknown")
            answered.add(k)
        elif k == "get-value":
            if prelude is None:
                continue
            try:
                e = sexpr.parse_one(text)
            except sexpr.ParseError as ex:
                return viol("unparsable-values: %s" % ex, idx)
            terms = c[1]
            if not isinstance(e, list) or len(e) != len(terms) or any(not isinstance(p, list) or len(p) != 2 for p in e):
                return viol("values-shape: expected %d pairs" % len(terms), idx)
            pl, problems = V.model_prelude(script["decls"], model_text, text)
            pl = pl + macros
            for t, pair in zip(terms, e):
                v = sexpr.to_str(pair[1])
                ok, why = holds(pl, "(= %s %s)" % (t, v), tms)
                if ok is False:
                    return viol("value-differs-from-model", idx, {"term": t, "printed": v, "model": model_text})
                if ok is None:
                    status = "inconclusive"
                    classes.append("ref-unknown")
            answered.add(k)
        elif k == "get-assignment":
            if prelude is None:
                continue
            try:
                e = sexpr.parse_one(text)
            except sexpr.ParseError as ex:
                return viol("unparsable-assignment: %s" % ex, idx)
            listed = {}
            for p in e if isinstance(e, list) else []:
                if not isinstance(p, list) or len(p) != 2:
                    return viol("assignment-shape", idx)
                listed[p[0]] = p[1]
            for n, t in visible_names.items():
                if n not in listed:
                    return viol("assignment-misses-name: " + n, idx)
            for n, b in listed.items():
                if n not in visible_names:
                    return viol("assignment-lists-unknown-name: " + n, idx)
                if b not in ("true", "false"):
                    soft.append(viol("assignment-not-a-truth-value: %s %s" % (n, b), idx))
                    continue
                ok, why = holds(prelude, "(= %s %s)" % (visible_names[n], b), tms)
                if ok is False:
                    return viol("assignment-differs-from-model", idx, {"name": n, "term": visible_names[n], "printed": b,
                                                                       "model": model_text})
            answered.add(k)
        want = {"get-model", "get-value"} | ({"get-assignment"} if any(x[0] == "get-assignment" for x in cmds) else set())
        if answered >= want and prelude is not None:
            nnum = sum(1 for l in prelude if l.startswith("(define-fun") and (") Real " in l or ") Int " in l) and "() " in l)
            nf = sum(1 for l in prelude if l.startswith("(define-fun") and not l.split(" ", 2)[2].startswith("()"))
            if nf >= 1 or nnum >= 2:
                nt_key = json.dumps([script["options"], script["logic"], sorted(act_terms)])
                classes.append("nt")
    if soft:
        soft[0].nt_key = nt_key
        soft[0].classes = classes + soft[0].classes[-1:]
        return soft[0]
    return Result(status, nt_key, classes)


def sig_boolarg(case, res):
    d = res.detail or {}
    if not str(d.get("what", "")).startswith("error-response"):
        return False
    if not any("argument and valuation size do not match" in x for x in (d.get("response") or [])):
        return False
    for dcl in case["decls"]:
        rk = V.decl_rank(dcl) if dcl.startswith("(declare-fun") else None
        if rk and "Bool" in rk[1]:
            return True
    return False


def sig_nonincr_model(case, res):
    d = res.detail or {}
    w = str(d.get("what", ""))
    return (w.startswith("model-falsifies-assertion") or w.startswith("assignment-differs-from-model")
            or w.startswith("value-differs-from-model")) and gen.opt_get(case, ":incremental") == "false"


def sig_assignment_after_pop(case, res):
    d = res.detail or {}
    if not str(d.get("what", "")).startswith("assignment-differs-from-model"):
        return False
    return any(c[0] == "pop" for c in case["cmds"][:d.get("cmd_index", 0)])


def sig_assignment_unknown(case, res):
    d = res.detail or {}
    return str(d.get("what", "")).startswith("assignment-not-a-truth-value") and str(d.get("what", "")).endswith(" unknown")


def sig_wrong_sat(pred):
    def f(case, res):
        d = res.detail or {}
        return str(d.get("what", "")).startswith("model-of-unsat-set") and pred(case)
    return f


from . import sigs  # noqa: E402
SIGNATURES = {"uf-bool-argument-model-error": sig_boolarg,
              "get-assignment-prints-unknown": sig_assignment_unknown,
              "get-assignment-stale-literal-after-pop": sig_assignment_after_pop,
              "non-incremental-model-of-unconstrained-theory-atom": sig_nonincr_model,
              "ghost-vars-theory-combination-wrong-sat": lambda c, r: sig_wrong_sat(sigs.ghost_combination_wrong_sat)(c, r) or (
                  sigs.is_ghost(c) and str((r.detail or {}).get("what", "")).split(":")[0] in (
                      "model-falsifies-assertion", "value-differs-from-model", "assignment-differs-from-model")),
              "non-incremental-second-check-sat": lambda c, r: str((r.detail or {}).get("what", "")).startswith("model-of-unsat-set") and
              sigs.nonincr_second_check(c, (r.detail or {}).get("cmd_index", 0) - 1),
              "lookahead-model-with-pushed-levels": lambda c, r: sigs.is_lookahead(c) and sigs.max_depth_before(c, (r.detail or {}).get("cmd_index")) >= 1 and str(
                  (r.detail or {}).get("what", "")).split(":")[0] in ("model-falsifies-assertion", "value-differs-from-model", "assignment-differs-from-model"),
              "lookahead-model-incomplete": lambda c, r: sigs.is_lookahead(c) and "Bool)" in str((r.detail or {}).get("model", "")) and str(
                  (r.detail or {}).get("what", "")).split(":")[0] in ("model-falsifies-assertion", "value-differs-from-model", "assignment-differs-from-model"),
              "lookahead-three-assertion-levels": lambda c, r: sigs.lookahead_deep(c, (r.detail or {}).get("cmd_index")) and str(
                  (r.detail or {}).get("what", "")).split(":")[0] in ("model-falsifies-assertion", "model-of-unsat-set",
                                                                      "value-differs-from-model", "assignment-differs-from-model"),
              "uf-bool-argument-model-wrong": lambda c, r: sigs.has_boolarg_uf(c) and str((r.detail or {}).get("what", "")).split(":")[0] in (
                  "model-falsifies-assertion", "value-differs-from-model", "unparsable-model", "model-shape"),
              "uf-arith-model-after-pop": lambda c, r: sigs.uf_arith_after_pop(c, (r.detail or {}).get("cmd_index")) and str(
                  (r.detail or {}).get("what", "")).split(":")[0] in ("model-falsifies-assertion", "value-differs-from-model"),
              "uf-bool-argument-theory-combination-wrong-sat": sig_wrong_sat(sigs.boolarg_combination_wrong_sat)}


def sample(case, res):
    return gen.render(case)
