"""C07 — minimal unsat cores are irreducible."""
from .. import gen
from . import corecommon

ID = "C07"
VARIANTS = ["fast"]
BUDGET = {"quick": (1500, 120), "thorough": (30000, 1500)}
RULE = ("As C06 but always with :minimal-unsat-cores (with/without :print-cores-full), many redundant named assertions, "
        "incremental histories. Oracle: after the core passed the C06 checks, for each listed name n: (core minus n) + all "
        "unnamed current assertions must be sat (z3 sat with validated model, cvc5 not unsat); full mode: printed minus f sat. "
        "Cases where an unnamed assertion is (possibly) equivalent to a named term are skipped as ambiguous-naming. "
        "Non-trivial = minimal core with >= 2 entries examined for irreducibility (named mode: out of >= 4 named "
        "assertions); distinct by (options, script).")
ASSUMPTIONS = ["z3+cvc5 reference (R1)", "ambiguous naming skipped"]


def generate(rnd, tier):
    return corecommon.generate(rnd, tier, True)


def check(case, ctx):
    res = corecommon.check(case, ctx, True)
    if res.status == "violation" and res.kind != "minimal-core-reducible":
        # anything else is C06's property; here only irreducibility is judged
        res.status = "inconclusive"
        res.classes.append("c06-issue:" + str(res.kind))
    return res


def sample(case, res):
    return gen.render(case)


def _sig_twin(case, res):
    """two names of one formula (the same formula asserted twice, C06 finding 'duplicate-term') are both listed"""
    d = res.detail or {}
    return str(d.get("what", "")).startswith("minimal-core-reducible") and bool(d.get("twin_term_in_core"))


def _sig_recheck(case, res):
    from . import sigs
    d = res.detail or {}
    return str(d.get("what", "")).startswith("minimal-core-reducible") and sigs.recheck_of_unsat_state(case, d.get("cmd_index", 0))


SIGNATURES = dict(corecommon.SIGNATURES)
SIGNATURES.update({"minimal-core-lists-two-names-of-one-formula": _sig_twin,
                   "core-after-recheck-of-unsat-state": _sig_recheck})
