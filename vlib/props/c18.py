"""C18 — the executable never crashes and signals every input problem."""
import glob, json, os, re
from .. import build, gen, run, sexpr
from ..driver import Result

ID = "C18"
VARIANTS = ["san"]
BUDGET = {"quick": (1400, 110), "thorough": (40000, 1500)}
RULE = ("Two generated sources run on the ASan/UBSan executable, as file and (30%) as pipe input: (b) Hypothesis near-valid scripts: "
        "a valid C01-space script with 1-3 injected faults (ill-sorted argument, wrong arity, unknown symbol/sort, non-linear "
        "product, division/div/mod by zero, duplicate declaration, command before set-logic, second set-logic, unsupported query "
        "(models in array logics, interpolants outside UF/LRA/LIA, proofs/cores without the option), unbalanced parentheses, stray "
        "tokens, huge or negative push/pop numerals, missing arguments, out-of-alphabet bytes, declared and undeclared names with printf format characters in accepted and rejected commands); "
        "(c) token-level mutations (delete/duplicate/swap/splice/replace) of the 519 files under test/regression (inputs only). "
        "Oracle: no exit by signal, no 'terminate called', no ASan/UBSan report, exit status in {0,1}; standard output ends with a complete line; for inputs containing '%' the output must change consistently when every '%' is written '$' (names are opaque); '(error' on stdout implies "
        "exit status != 0; an input our own reader finds unbalanced/with a stray token must produce a diagnostic on stdout and exit "
        "status != 0; a script without check-sat must finish within 10 s. Non-trivial = input with >= 1 accepted declaration and "
        ">= 1 injected fault or mutation; distinct by text. Known findings are keyed by crash fingerprint (exception type / "
        "sanitizer location).")
ASSUMPTIONS = ["sanitizer build (-DNDEBUG like the release configuration)", "10 s limit only for scripts without check-sat"]

_CORPUS = []


def corpus():
    if not _CORPUS:
        for p in sorted(glob.glob(os.path.join(build.REPO, "test", "regression", "**", "*.smt2"), recursive=True)):
            try:
                if os.path.getsize(p) < 6000:
                    _CORPUS.append(p)
            except OSError:
                pass
    return _CORPUS


FAULTS = ["illsorted", "arity", "unknown", "nonlinear", "divzero", "dupdecl", "before-logic", "second-logic", "unsupported-query",
          "unbalanced", "stray", "huge-push", "missing-arg", "bad-byte", "format-name", "let-misuse", "bad-option"]


def inject(rnd, script, sig, tg):
    """returns list of text lines (commands) with faults injected, and the fault names"""
    lines = ["(set-option %s %s)" % (k, v) for k, v in script["options"]]
    if rnd.random() < 0.3:
        # tracking options in logics that may not support the corresponding query
        for o in rnd.sample([":produce-interpolants", ":produce-proofs", ":produce-unsat-cores", ":produce-models", ":produce-assignments"],
                            rnd.randint(1, 2)):
            if not any(k == o for k, _ in script["options"]):
                lines.append("(set-option %s true)" % o)
    lines.append("(set-logic %s)" % script["logic"])
    lines += list(script["decls"])
    body = [gen.render_cmd(c) for c in script["cmds"]]
    faults = []
    for _ in range(rnd.randint(1, 3)):
        f = rnd.choice(FAULTS)
        faults.append(f)
        pos = rnd.randint(0, len(body))
        nums = [s for s in ("Int", "Real") if sig.vars.get(s)]
        anyv = [v for vs in sig.vars.values() for v in vs]
        if f == "illsorted":
            a = rnd.choice(anyv)
            body.insert(pos, "(assert (and %s %s))" % (a, rnd.choice(anyv)) if rnd.random() < 0.5 else "(assert (= %s %s))" % (a, rnd.choice(anyv)))
        elif f == "arity":
            if sig.funs:
                fn = rnd.choice(sig.funs)
                body.insert(pos, "(assert (= (%s %s) (%s)))" % (fn[0], " ".join(rnd.choice(anyv) for _ in range(len(fn[1]) + 1)), fn[0]))
            else:
                body.insert(pos, "(assert (not b0 b1))")
        elif f == "unknown":
            body.insert(pos, rnd.choice(["(assert (zz b0))", "(assert undeclared_q)", "(declare-fun w (Foo) Bool)", "(declare-fun w2 () (Array Int))",
                                         "(get-value (nosuch))", "(define-fun d1 ((x Bar)) Bool x)"]))
        elif f == "nonlinear":
            if nums:
                s = rnd.choice(nums)
                x, y = rnd.choice(sig.vars[s]), rnd.choice(sig.vars[s])
                body.insert(pos, "(assert (%s (* %s %s) %s))" % (rnd.choice(["<=", "="]), x, y, x))
        elif f == "divzero":
            if nums:
                s = rnd.choice(nums)
                x = rnd.choice(sig.vars[s])
                z = "0" if s == "Int" else "0.0"
                op = rnd.choice(["div", "mod"]) if s == "Int" else "/"
                body.insert(pos, "(assert (= %s (%s %s %s)))" % (x, op, x, z))
        elif f == "dupdecl":
            if script["decls"]:
                body.insert(pos, rnd.choice(script["decls"]))
        elif f == "before-logic":
            lines.insert(0, rnd.choice(["(check-sat)", "(assert true)", "(push 1)", "(declare-fun e () Bool)", "(get-model)", "(pop 1)",
                                        "(get-value (true))", "(get-unsat-core)", "(define-fun k () Bool true)", "(get-assignment)"]))
        elif f == "second-logic":
            body.insert(pos, "(set-logic %s)" % rnd.choice(["QF_LRA", "QF_UF", "QF_LIA", "QF_AX", "NOSUCH"]))
        elif f == "unsupported-query":
            names = [c[2] for c in script["cmds"] if c[0] == "assert-named"]
            if len(names) >= 2 and rnd.random() < 0.4:
                body.append("(check-sat)")
                body.append("(get-interpolants %s %s)" % (names[0], names[1]))
                continue
            body.insert(pos, rnd.choice(["(get-model)", "(get-proof)", "(get-unsat-core)", "(get-interpolants b0 b1)", "(get-assignment)",
                                         "(get-value (b0))", "(get-info :status)", "(get-option :produce-models)", "(get-assertions)",
                                         "(check-sat-assuming (b0))", "(reset)", "(reset-assertions)", "(get-interpolants)"]))
        elif f == "unbalanced":
            if body:
                i = rnd.randint(0, len(body) - 1)
                body[i] = body[i][:-1] if rnd.random() < 0.5 else body[i] + ")"
        elif f == "stray":
            body.insert(pos, rnd.choice(["foo", ")", "(", "(assert)", "()", "(assert b0 b0)", "(check-sat extra)", "\"str\"", "(! b0)", "(assert (! b0 :named))",
                                         "(assert (let () b0))", "(assert (let ((x)) b0))", "(push)", "(pop x)", "(echo)", "(echo 5)"]))
        elif f == "huge-push":
            body.insert(pos, rnd.choice(["(push 99999999999)", "(pop 99999999999)", "(push -1)", "(pop -1)", "(push 2147483648)", "(pop 0)", "(push 0)",
                                         "(push 1000)", "(pop 1001)"]))
        elif f == "missing-arg":
            body.insert(pos, rnd.choice(["(assert (and))", "(assert (+ ))", "(assert (=))", "(assert (ite b0))", "(assert (distinct))", "(assert (not))",
                                         "(assert (select))", "(assert (- ))", "(assert (<= 1))"]))
        elif f == "bad-byte":
            body.insert(pos, rnd.choice(["(assert b0\x01)", "(echo \"\\x\")", "(assert |a\\b|)", "(assert \r b0)", "(assert b0) \x7f", "(assert #b101)",
                                         "(assert #xFF)", "(assert b0) ; \xc3\xa9", "(assert (= 1e5 1))"]))
        elif f == "format-name":
            n = rnd.choice(["|a%sb|", "|%n|", "|%d%d%d%d|", "|100%|", "|%s%s%s%s%s%s|"])
            if rnd.random() < 0.6:
                # the same kind of name in a command that is rejected: the name then travels through the diagnostics
                u = rnd.choice(["y%s", "%s%s%s%s", "|q %n|", "%d%d%d%d%d%d%d%d", "u%sv%sw", "|%s|", "%x%x%x%x%s"])
                bad = ["(assert (and %s %s))" % (rnd.choice(anyv), u), "(assert (%s %s))" % (u, rnd.choice(anyv)), "(get-value (%s))" % u,
                       "(declare-fun w%d () %s)" % (pos, u), "(set-option :%s true)" % u.strip("|"), "(set-logic %s)" % u,
                       "(define-fun %s () Bool %s)" % (n, n), "(declare-fun %s () Bool)" % n, "(get-info :%s)" % u.strip("|"),
                       "(assert (! true :named %s))" % n, "(declare-sort %s 1)" % u, "(get-interpolants %s %s)" % (u, u),
                       "(assert (let ((%s true)) (and %s zq)))" % (u, u), "(%s)" % u.strip("|").replace(" ", ""), "(get-option :%s)" % u.strip("|"),
                       "(set-info :%s %s)" % (u.strip("|"), u)]
                if nums:
                    x = rnd.choice(sig.vars[rnd.choice(nums)])
                    bad += ["(assert (> (+ %s %s) 0))" % (x, u), "(assert (= %s (* %s %s)))" % (x, u, x)]
                for b in rnd.sample(bad, rnd.randint(1, 3)):
                    body.insert(rnd.randint(0, len(body)), b)
            lines.append("(declare-fun %s () Bool)" % n)
            body.insert(pos, "(assert (! %s :named %s))" % (n, rnd.choice(["|n%s|", "|%x|", "nm1"])))
            body.append("(check-sat)")
            body.append(rnd.choice(["(get-assignment)", "(get-model)", "(get-value (%s))" % n, "(get-unsat-core)"]))
        elif f == "let-misuse":
            body.insert(pos, rnd.choice(["(assert (let ((b0 b1) (b0 b1)) b0))", "(assert (let ((q r)) q))", "(assert (let ((x 1)) (and x x)))",
                                         "(define-fun m9 ((p Bool) (p Bool)) Bool p)", "(define-fun m8 () Int true)"]))
        elif f == "bad-option":
            lines.insert(0, rnd.choice(["(set-option :produce-models 5)", "(set-option :random-seed abc)", "(set-option :verbosity -1)", "(set-option)",
                                        "(set-option :nosuch true)", "(set-option :produce-models)", "(set-info :status)", "(set-option :ccmin-mode 7)",
                                        "(set-option :interpolation-bool-algorithm 9)", "(set-option :restart-first 0)", "(set-option :random-seed 0)"]))
    return lines + body, faults


def mutate(rnd, text):
    try:
        toks = sexpr.tokenize(text)
    except Exception:
        toks = text.split()
    if len(toks) < 4:
        return text, ["short"]
    ops = []
    for _ in range(rnd.randint(1, 3)):
        op = rnd.choice(["delete", "duplicate", "swap", "splice", "replace"])
        ops.append(op)
        i = rnd.randint(0, len(toks) - 1)
        if op == "delete":
            del toks[i]
        elif op == "duplicate":
            toks.insert(i, toks[i])
        elif op == "swap":
            j = rnd.randint(0, len(toks) - 1)
            toks[i], toks[j] = toks[j], toks[i]
        elif op == "splice":
            j = rnd.randint(0, len(toks) - 1)
            k = min(len(toks), j + rnd.randint(1, 6))
            toks[i:i] = toks[j:k]
        else:
            toks[i] = rnd.choice(["0", "1", "x", "true", "(", ")", "Int", "Bool", "assert", "check-sat", "-1", "0.0", "push", "pop", "get-model",
                                  "!", ":named", "let", "and", "=", "ite", "distinct", "(- 1)", "99999999999999999999", "div", "mod", "/"])
        if len(toks) < 2:
            break
    return " ".join(toks).replace(" )", ")").replace("( ", "(") + "\n", ops


def generate(rnd, tier):
    pipe = rnd.random() < 0.3
    if rnd.random() < 0.6 or not corpus():
        script, sig, tg = gen.gen_script(rnd, tier, queries=True, max_hist=8, big=rnd.random() < 0.3,
                                         named=0.6 if rnd.random() < 0.4 else 0.0)
        lines, faults = inject(rnd, script, sig, tg)
        return {"text": "\n".join(lines) + "\n", "faults": faults, "pipe": pipe, "src": "near-valid"}
    p = rnd.choice(corpus())
    text = open(p, errors="replace").read()
    m, ops = mutate(rnd, text)
    return {"text": m, "faults": ops, "pipe": pipe, "src": "mutation:" + os.path.relpath(p, build.REPO)}


def fingerprint(o):
    """short text identifying a crash site: exception type + message head, or sanitizer summary location"""
    err = o.stderr
    m = re.search(r"terminate called after throwing an instance of '([^']+)'(?:\s+what\(\):\s+([^\n]{0,60}))?", err)
    if m:
        what = re.sub(r"[0-9]+", "N", (m.group(2) or "")).strip()
        what = re.sub(r"`[^']*'|\(.*", "", what).strip()
        return "uncaught:%s:%s" % (m.group(1), what[:40])
    m = re.search(r"SUMMARY: (?:AddressSanitizer|UndefinedBehaviorSanitizer): ([^\n]+)", err)
    if m:
        s = m.group(1)
        s = re.sub(r"0x[0-9a-f]+", "", s)
        loc = re.search(r"(/repo/src/[^ :]+:\d+)", s) or re.search(r"(/repo/src/[^ :]+:\d+)", err)
        kind = s.split()[0]
        return "sanitizer:%s:%s" % (kind, loc.group(1).replace("/repo/src/", "") if loc else "?")
    m = re.search(r"runtime error: ([^\n]{0,80})", err)
    if m:
        loc = re.search(r"(/repo/src/[^ :]+:\d+)", err)
        return "ubsan:%s:%s" % (loc.group(1).replace("/repo/src/", "") if loc else "?", re.sub(r"[0-9]+", "N", m.group(1))[:40])
    if o.signal is not None:
        return "signal:%d" % o.signal
    return "exit:%s" % o.rc


def balanced(text):
    try:
        sexpr.parse_all(text)
        return True
    except sexpr.ParseError:
        return False
    except Exception:
        return True


def check(case, ctx):
    text = case["text"]
    o = run.run_text(text, "san", 30.0, pipe=case.get("pipe", False))
    classes = ["src:" + case["src"].split(":")[0], "mode:" + ("pipe" if case.get("pipe") else "file")]
    for f in case["faults"]:
        classes.append("fault:" + f)
    has_check = "check-sat" in text
    nt_key = text if ("declare-" in text and case["faults"]) else None

    def viol(what, fp=None):
        d = {"what": what, "fingerprint": fp, "text": text, "pipe": case.get("pipe", False), "rc": o.rc, "stdout": o.stdout[-600:],
             "stderr": o.stderr[-1500:], "faults": case["faults"], "src": case["src"]}
        return Result("violation", nt_key, classes, d, kind=(fp or what.split(":")[0]))
    if o.timeout:
        if not has_check:
            again = [run.run_text(text, "san", 30.0, pipe=case.get("pipe", False)).timeout for _ in range(2)]
            if all(again):
                return viol("no-termination: script without check-sat does not finish in 30 s (limit 10 s)", "hang-without-check-sat")
        return Result("inconclusive", nt_key, classes + ["timeout"])
    if o.crashed() or o.rc not in (0, 1):
        fp = fingerprint(o)
        return viol("crash: " + fp, fp)
    if o.stdout and not o.stdout.endswith("\n"):
        # every response and diagnostic is written as a complete line; an output that stops in the middle of one means the
        # stream broke while printing (e.g. a null char* put into std::cout sets badbit and silences everything after it)
        return viol("output-truncated: standard output stops in the middle of a line", "stdout-truncated")
    if "(error" in o.stdout and o.rc == 0:
        return viol("error-reported-but-exit-status-0", "error-with-exit-0")
    if not balanced(text) and not case.get("pipe"):
        # unbalanced parentheses are a syntax error for the file parser; pipe mode only sees complete commands
        if o.rc == 0:
            return viol("syntax-error-not-signalled: unbalanced input, exit status 0", "syntax-error-exit-0")
        if not o.stdout.strip():
            return viol("syntax-error-without-diagnostic-on-stdout", "syntax-error-no-diagnostic")
    if "%" in text and "$" not in text:
        # symbol names are opaque: writing '$' for every '%' (both are plain symbol characters, adjacent in ASCII, so no order
        # changes) must change the output in exactly the same way; anything else means a name was interpreted (printf-style)
        o2 = run.run_text(text.replace("%", "$"), "san", 30.0, pipe=case.get("pipe", False))
        classes.append("percent-renaming")
        if not o2.timeout and not o2.crashed() and (o.stdout.replace("%", "$") != o2.stdout or o.rc != o2.rc):
            o3 = run.run_text(text, "san", 30.0, pipe=case.get("pipe", False))
            if not o3.timeout and (o3.stdout.replace("%", "$") != o2.stdout or o3.rc != o2.rc):
                a, b = o3.stdout.replace("%", "$").split("\n"), o2.stdout.split("\n")
                i = next((k for k in range(min(len(a), len(b))) if a[k] != b[k]), min(len(a), len(b)))
                d = viol("names-interpreted: output differs when '%' in symbol names is written '$'", "percent-name-interpreted")
                d.detail["first_difference"] = {"with_percent": o3.stdout.split("\n")[i:i + 1], "with_dollar": b[i:i + 1]}
                return d
    classes.append("rc:%s" % o.rc)
    return Result("ok", nt_key, classes)


def shrink(case, ctx):
    import copy
    cur = copy.deepcopy(case)
    r0 = check(cur, ctx)
    k0 = r0.kind

    def fails(c):
        r = check(c, ctx)
        return r.status == "violation" and r.kind == k0
    lines = cur["text"].split("\n")
    k = max(1, len(lines) // 2)
    rounds = 0
    while k >= 1 and rounds < 120:
        i = 0
        progress = False
        while i < len(lines) and rounds < 120:
            cand = lines[:i] + lines[i + k:]
            c = copy.deepcopy(cur)
            c["text"] = "\n".join(cand)
            rounds += 1
            if cand and fails(c):
                lines, cur, progress = cand, c, True
            else:
                i += k
        if not progress:
            k //= 2
    return cur


SHRINK = "custom"


def _by_fp(fp_prefixes):
    def f(case, res):
        fp = (res.detail or {}).get("fingerprint") or ""
        return any(fp.startswith(p) for p in fp_prefixes)
    return f


SIGNATURES = {}


def _load_sigs():
    from ..driver import load_known
    for e in load_known(ID):
        fps = e.get("fingerprints")
        if fps:
            SIGNATURES[e["signature"]] = _by_fp(fps)


_load_sigs()


def sample(case, res):
    return {"text": case["text"][:1500], "faults": case["faults"], "src": case["src"], "pipe": case["pipe"]}
