"""Shared generator/oracle for C06 (cores are unsat and name current assertions only) and C07 (minimal cores)."""
import json
from .. import gen, osmt, ref, sexpr, validators as V
from ..driver import Result
from . import satcommon
from .c03 import named_terms, strip_names

CORE_LOGICS = [k for k in gen.ALL_LOGIC_KEYS]


def generate(rnd, tier, minimal):
    script, sig, tg = gen.gen_script(rnd, tier, tracking={"cores"}, queries=False, named=rnd.choice([0.4, 0.7, 1.0]),
                                     planted_p=0.8, engines=rnd.random() < 0.3, allow_nonincr=False, hist_p=0.5,
                                     hist_w=(0.45, 0.17, 0.15))
    opts = script["options"]
    if minimal or rnd.random() < 0.3:
        opts.append([":minimal-unsat-cores", "true"])
    if rnd.random() < 0.3:
        opts.append([":print-cores-full", "true"])
    # extra shapes: nested names, a second name on an already asserted formula, the same formula asserted twice
    cmds = []
    kc = 0
    seen_terms = []
    for c in script["cmds"]:
        if c[0] in ("assert", "assert-named"):
            r = rnd.random()
            if r < 0.1 and seen_terms:
                kc += 1
                t = rnd.choice(seen_terms)
                cmds.append(["assert-named", t, "d%d" % kc] if rnd.random() < 0.7 else ["assert", t])
            if c[0] == "assert" and r > 0.75:
                kc += 1
                a = rnd.choice(seen_terms) if (seen_terms and rnd.random() < 0.6) else tg.boolean(rnd.randint(0, 1))
                c = ["assert", "(or (! %s :named k%d) %s)" % (a, kc, c[1])] if rnd.random() < 0.5 else \
                    ["assert", "(and (! %s :named k%d) true)" % (c[1], kc)]
            seen_terms.append(strip_names(c[1]))
        cmds.append(c)
        if c[0] == "check-sat":
            cmds.append(["get-unsat-core"])
    # a second (nested) name for a formula that is a live assertion of a shallower level, given inside a deeper level
    out = []
    levels = [[]]
    for c in cmds:
        out.append(c)
        if c[0] == "push":
            for _ in range(c[1]):
                levels.append([])
            outer = [t for lv in levels[:-1] for t in lv]
            if outer and rnd.random() < 0.3:
                kc += 1
                t = rnd.choice(outer)
                other = tg.boolean(0)
                out.append(["assert", rnd.choice(["(or (! %s :named r%d) %s)", "(and (! %s :named r%d) %s)",
                                                  "(=> %s (! %s :named r%d))" if False else "(or %s (! %s :named r%d))"][:2]
                                                 ) % (t, kc, other)])
        elif c[0] == "pop":
            for _ in range(min(c[1], len(levels) - 1)):
                levels.pop()
        elif c[0] in ("assert", "assert-named"):
            levels[-1].append(strip_names(c[1]))
    script["cmds"] = out
    return script


def z3_equiv(decls, a, b, tms=3000):
    zr, _ = ref.z3_check(decls, ["(not (= %s %s))" % (a, b)], tms)
    return True if zr == "unsat" else (False if zr == "sat" else None)


def check(case, ctx, minimal_only):
    script = case
    tms = 5000 if ctx.tier == "quick" else 15000
    r = osmt.run_marked(script, "fast", satcommon.opensmt_timeout(script, ctx.tier))
    classes = ["logic:" + script.get("lk", script["logic"])]
    if r.out.timeout:
        return Result("inconclusive", None, classes + ["opensmt-timeout"])
    if r.out.crashed():
        return Result("inconclusive", None, classes + ["opensmt-crash"])
    if gen.opt_get(script, ":produce-unsat-cores") != "true":
        return Result("inconclusive", None, classes + ["cores-not-enabled"])
    full = gen.opt_get(script, ":print-cores-full") == "true"
    minimal = gen.opt_get(script, ":minimal-unsat-cores") == "true"
    glob = gen.opt_get(script, ":global-declarations") == "true"
    real_only = not any(" Int" in d or "(Int" in d for d in script["decls"])
    nt_key = None
    status = "ok"
    state = None
    all_names = {}
    popped_name = False
    names_now = set()

    def viol(what, idx, extra=None):
        d = {"what": what, "cmd_index": idx, "script": gen.render(script), "response": r.resp.get(idx)}
        if extra:
            d.update(extra)
        return Result("violation", nt_key, classes + ["viol:" + what.split(":")[0]], d)

    for idx, c, active in gen.stack_walk(script):
        k = c[0]
        if k in ("assert", "assert-named", "push", "pop", "define-fun"):
            state = None  # a core may only be requested right after the check-sat that answered unsat
        if k in ("assert", "assert-named"):
            if k == "assert-named":
                all_names[c[2]] = strip_names(c[1])
            tmp = {}
            named_terms(c[1], tmp)
            for n, t in tmp.items():
                all_names[n] = strip_names(t)
        if k == "check-sat":
            state = r.answer(idx)
            classes.append("answer:" + str(state))
            continue
        if k != "get-unsat-core" or state != "unsat":
            continue
        resp = r.resp.get(idx) or []
        if any(x.startswith("(error") for x in resp):
            return viol("error-response: get-unsat-core after unsat", idx)
        if len(resp) != 1:
            return viol("malformed-response: %d top-level items" % len(resp), idx)
        try:
            core = sexpr.parse_one(resp[0])
        except sexpr.ParseError as e:
            return viol("unparsable-core: %s" % e, idx)
        if not isinstance(core, list):
            return viol("core-shape", idx)
        decls = osmt.ref_decls(script, idx)
        act = [(strip_names(t), n) for t, n in active]
        visible = {}
        for t, n in active:
            if n:
                visible[n] = strip_names(t)
            tmp = {}
            named_terms(t, tmp)
            for n2, t2 in tmp.items():
                visible[n2] = strip_names(t2)
        if len(visible) < len(all_names):
            popped_name = True
        top_named = {n: t for t, n in act if n}
        unnamed = [t for t, n in act if not n]
        if not full:
            names = [x if isinstance(x, str) else sexpr.to_str(x) for x in core]
            if len(set(names)) != len(names):
                return viol("core-repeats-a-name", idx)
            scope = all_names if glob else visible
            for n in names:
                if n not in scope:
                    return viol("core-lists-name-not-in-scope: " + n, idx, {"popped": n in all_names})
            for n in names:
                if n in top_named:
                    continue
                t = scope[n]
                eq = [a for a, _ in act if a == t]
                if not eq:
                    eqs = [z3_equiv(decls, t, a) for a, _ in act]
                    if not any(e is True for e in eqs):
                        if any(e is None for e in eqs):
                            status = "inconclusive"
                        else:
                            return viol("core-lists-name-of-non-assertion: " + n, idx, {"term": t})
            core_terms = [scope[n] for n in names]
            rr = ref.decide(decls, core_terms + unnamed, tms)
            classes.append("ref:" + rr[0])
            if rr[0] == "sat":
                return viol("core-not-unsat: listed names plus all unnamed current assertions are satisfiable", idx,
                            {"core": names, "witness_model": rr[1]})
            if rr[0] == "unknown":
                status = "inconclusive"
            nn = len(top_named) + len([n for n in visible if n not in top_named])
            if (len(top_named) >= 3 and len(names) < len(top_named)) or popped_name:
                nt_key = json.dumps([script["options"], script["logic"], sorted(a for a, _ in act)])
                classes.append("nt")
            if minimal and rr[0] == "unsat":
                # ambiguity: an unnamed assertion equivalent to a named term is 'named' for opensmt
                amb = False
                for u in unnamed:
                    for n, t in scope.items():
                        if u == t or z3_equiv(decls, u, t) is not False:
                            amb = True
                            break
                    if amb:
                        break
                if amb:
                    classes.append("ambiguous-naming")
                else:
                    if len(names) >= 2 and len(top_named) >= 4:
                        classes.append("nt-minimal")
                    for i, n in enumerate(names):
                        rest = core_terms[:i] + core_terms[i + 1:]
                        r2 = ref.decide(decls, rest + unnamed, tms)
                        if r2[0] == "unsat":
                            twin = any(z3_equiv(decls, core_terms[i], o) is True for o in rest)
                            return viol("minimal-core-reducible: removing %s keeps it unsat" % n, idx,
                                        {"core": names, "twin_term_in_core": twin})
                        if r2[0] == "unknown":
                            status = "inconclusive"
        else:
            forms = [sexpr.to_str(x) for x in core]
            if real_only:
                forms = [V.realize(f) for f in forms]
            if any(".frame" in f or ".ite" in f or ".div" in f or ".mod" in f for f in forms):
                return viol("core-formula-mentions-solver-symbol", idx)
            # every printed formula is a current assertion
            acts = [a for a, _ in act]
            for f in forms:
                eqs = [z3_equiv(decls, f, a) for a in acts]
                if any(e is True for e in eqs):
                    continue
                if any(e is None for e in eqs):
                    status = "inconclusive"
                    classes.append("full-core-equiv-unknown")
                    continue
                return viol("full-core-formula-is-not-a-current-assertion", idx, {"formula": f})
            rr = ref.decide(decls, forms, tms)
            classes.append("ref:" + rr[0])
            if rr[0] == "sat":
                return viol("core-not-unsat: printed formulas alone are satisfiable", idx, {"core": forms})
            if rr[0] == "unknown":
                status = "inconclusive"
            if len(acts) >= 3 and len(forms) < len(acts):
                nt_key = json.dumps([script["options"], script["logic"], sorted(acts)])
                classes.append("nt")
            if minimal and rr[0] == "unsat":
                if len(forms) >= 2:
                    classes.append("nt-minimal")
                for i in range(len(forms)):
                    rest = forms[:i] + forms[i + 1:]
                    r2 = ref.decide(decls, rest, tms) if rest else ("sat", None)
                    if r2[0] == "unsat":
                        return viol("minimal-core-reducible: removing formula %d keeps it unsat" % i, idx, {"core": forms})
                    if r2[0] == "unknown":
                        status = "inconclusive"
    if minimal_only and "nt-minimal" in classes and nt_key is None:
        nt_key = json.dumps([script["options"], gen.render(script)])
    return Result(status, nt_key, classes)


# ---- signatures of known findings -------------------------------------------------------------------------------
def _detail(res):
    return res.detail or {}


def sig_recheck_unsat_state(case, res):
    """too small core printed by a check-sat whose assertion set contains a set already answered unsat earlier
    (the unsat frame is still on the stack, the solver does not solve again)"""
    d = _detail(res)
    if not str(d.get("what", "")).startswith("core-not-unsat"):
        return False
    idx = d.get("cmd_index", 0)
    cps = [(i, [tuple(x) for x in act]) for i, c, act in gen.stack_walk(case) if c[0] == "check-sat"]
    cur = [x for x in cps if x[0] < idx]
    if len(cur) < 2:
        return False
    j, act_j = cur[-1]
    from .. import osmt as _o
    r = _o.run_marked(case, "fast", 10)
    for k, act_k in cur[:-1]:
        if r.answer(k) == "unsat" and all(x in act_j for x in act_k):
            return True
    return False


def sig_duplicate_term(case, res):
    """the same formula (syntactically, or after the solver's own simplification, decided by z3-equivalence) asserted
    more than once in the script so far (second name / unnamed copy / copy in a popped level): its name is missing"""
    d = _detail(res)
    if not str(d.get("what", "")).startswith("core-not-unsat"):
        return False
    idx = d.get("cmd_index", 0)
    decls = osmt.ref_decls(case, idx)
    earlier = [strip_names(c[1]) for c in case["cmds"][:idx] if c[0] in ("assert", "assert-named")]
    return ref.any_equivalent_pair(decls, earlier)


def sig_popped_in_full_core(case, res):
    d = _detail(res)
    if not str(d.get("what", "")).startswith("full-core-formula-is-not-a-current-assertion"):
        return False
    f = d.get("formula")
    if f == "true":
        return True
    idx = d.get("cmd_index", 0)
    decls = osmt.ref_decls(case, idx)
    earlier = [strip_names(c[1]) for c in case["cmds"][:idx] if c[0] in ("assert", "assert-named")]
    active = []
    for i, c, act in gen.stack_walk(case):
        if i == idx:
            active = [strip_names(t) for t, _ in act]
    popped = [t for t in earlier if t not in active]
    return any(t == f or z3_equiv(decls, t, f) is True for t in popped)


def sig_solver_symbol(case, res):
    d = _detail(res)
    return str(d.get("what", "")).startswith("core-formula-mentions-solver-symbol") and \
        any(".ite" in x for x in (d.get("response") or [])) and "ite" in gen.render(case)


def sig_global_popped(case, res):
    d = _detail(res)
    return str(d.get("what", "")).startswith("core-lists-name-of-non-assertion") and \
        gen.opt_get(case, ":global-declarations") == "true" and any(c[0] == "pop" for c in case["cmds"][:d.get("cmd_index", 0)])


SIGNATURES = {"core-after-recheck-of-unsat-state": sig_recheck_unsat_state,
              "global-declarations-core-lists-popped-assertion": sig_global_popped,
              "core-misses-name-of-formula-asserted-twice": sig_duplicate_term,
              "full-core-prints-popped-assertion": sig_popped_in_full_core,
              "full-core-prints-preprocessed-formula": sig_solver_symbol}
