"""C08 — interpolants are Craig interpolants for the requested split."""
from .. import gen
from . import itpcommon

ID = "C08"
VARIANTS = ["fast"]
BUDGET = {"quick": (1100, 110), "thorough": (40000, 1500)}
RULE = ("Hypothesis-generated unsat-leaning QF_UF (incl. propositional) / QF_LRA / QF_LIA scripts with every assertion named, "
        "push/pop histories with re-asserted popped formulas, every value of :interpolation-bool-algorithm 0-5, "
        "-euf-algorithm {0,2,3}, -lra-algorithm {0,2,3,4,5}, -lra-factor, :proof-reduce (+knobs), :simplify-interpolants 0-4; "
        "after each check-sat 1-2 requests (get-interpolants G1 G2) with Gi a name or a conjunction of names, in any order. "
        "Oracle: request not rejected; A /\\ not I unsat; I /\\ B unsat (B = all other current assertions by our stack model; "
        "z3+cvc5); symbols(I) subset of the declared symbols occurring in both A and B. Non-trivial = interpolant not "
        "true/false with >= 1 shared symbol and >= 1 A-local symbol; distinct by (options, active set, request).")
ASSUMPTIONS = ["z3+cvc5 reference (R1)", "our assertion-stack model defines B"]


def generate(rnd, tier):
    return itpcommon.generate(rnd, tier, 2, 2)


def check(case, ctx):
    return itpcommon.check(case, ctx, False)


def sample(case, res):
    return gen.render(case)

SIGNATURES = itpcommon.SIGNATURES
