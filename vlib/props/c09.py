"""C09 — sequence interpolants satisfy the path-interpolation property."""
from .. import gen
from . import itpcommon

ID = "C09"
VARIANTS = ["fast"]
BUDGET = {"quick": (1100, 110), "thorough": (40000, 1500)}
RULE = ("As C08 with k in 3..6 ordered groups per request. Oracle: the k-1 results are each a Craig interpolant for "
        "(G1..Gj | rest of the current assertions), I_j /\\ G_{j+1} => I_{j+1} (z3+cvc5: the negation is unsat), and "
        "I_{k-1} /\\ G_k /\\ (assertions in no group) is unsat. Non-trivial = request with k >= 3 and >= 2 non-constant "
        "interpolants; distinct by (options, active set, request).")
ASSUMPTIONS = ["z3+cvc5 reference (R1)", "our assertion-stack model defines the groups' complement"]


def generate(rnd, tier):
    return itpcommon.generate(rnd, tier, 3, 6)


def check(case, ctx):
    return itpcommon.check(case, ctx, True)


def sample(case, res):
    return gen.render(case)

SIGNATURES = itpcommon.SIGNATURES
