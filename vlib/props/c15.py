"""C15 — rational arithmetic is exact in both representations (in-process rapidcheck harness + exhaustive boundary pairs)."""
import os
from .. import build, harness

ID = "C15"
VARIANTS = ["san"]
RULE = ("harness/h_rational.cc against libopensmt (ASan+UBSan): (a) exhaustive boundary enumeration: 378 values n/d (quick tier: 4 of the 8 denominators, 240 values) with n from "
        "{0..3, 2^31-2..2^31+1, 2^32-2..2^32+1, 2^53+-1, 2^63+-1, 2^64+-1} and negations, d from {1,2,3,2^31-1,2^31,2^32-1,2^32,"
        "2^63-1,2^64+1}, all ordered pairs x 22 operations (exhaustive over this set); (b) rapidcheck register machine: "
        "sequences of up to 60 operations over 6 registers (binary and in-place + - * /, negate, inverse, copy/move/self-assign, "
        "a+=a, compare, gcd, lcm, floor division, remainder, divexact, floor/ceil), values from the pool, small integers, random "
        "int64/uint32 fractions and long digit strings. Oracle: mpq_class/mpz_class model in lock-step; after every step value, "
        "isWellFormed(), word form iff the value fits, sign/isInteger/isZero/isOne/get_num/get_den/floor/ceil, == and hash equal "
        "to a directly constructed equal value; remainder must be a remainder with the divisor's sign; no sanitizer report. "
        "Non-trivial = sequence with an operation whose operand or result does not fit the word form; distinct = counted per "
        "sequence (a) / per op triple (b).")
ASSUMPTIONS = ["GMP (mpq_class/mpz_class) as the exact model", "integer-only operations are applied to floor()ed operands"]
KNOWN_EXCL = {"mod-word-mixed-sign": "mod-word-mixed-sign"}


def custom_run(tier, seed):
    os.environ["VERIF_TIER_RUN"] = tier
    harness.ensure(["h_rational"])
    known = {e["id"]: e for e in harness.known_excludes(ID)}
    excl = ",".join(k for k in known if k in KNOWN_EXCL)
    parts = 16
    jobs = [dict(name="h_rational", args=["pairs", str(i), str(parts)] + (["lite"] if tier == "quick" else []), exclude=excl)
            for i in range(parts)]
    nrc = 16
    per = 400 if tier == "quick" else 20000
    for w in range(nrc):
        jobs.append(dict(name="h_rational", args=["rc"], exclude=excl,
                         rc_params="seed=%d max_success=%d max_size=%d" % (seed * 1000 + w + 1, per, 100)))
    res = harness.run_many(jobs)
    ev, nt, classes, samples = harness.merge_stats(res)
    violations = []
    known_lines = []
    for r in res:
        bad = (r["rc"] not in (0,)) or r["ub"] or r["asan"] or r["timeout"]
        if not bad:
            continue
        if r["timeout"]:
            classes["timeout"] = classes.get("timeout", 0) + 1
            continue
        text = r["fail"] or ("crash without saved case\n" + r["stdout"][-1500:] + r["stderr"][-1500:])
        violations.append(harness.save_fail(ID, "h_rational", text, {"args": r["args"], "rc_params": r["rc_params"], "rc": r["rc"],
                                                                      "ub": r["ub"], "stdout": r["stdout"][-1500:],
                                                                      "stderr": r["stderr"][-1500:]}))
    # known findings: replay their stored inputs without exclusion
    for kid, e in known.items():
        rp = os.path.join(build.ROOT, e["replay"])
        if os.path.exists(rp):
            r = harness.run_one("h_rational", ["replay", rp])
            if r["rc"] != 0:
                known_lines.append("KNOWN-FINDING: property=%s %s" % (ID, e["what"]))
    cov = {"evaluations": ev, "distinct_nontrivial": nt, "samples": samples, "classes": classes, "exhaustive": True,
           "exhaustive_note": "part (a) enumerates its finite boundary set completely; part (b) is sampled",
           "excluded_known": sum(v for k, v in classes.items() if k.startswith("excluded:")), "processes": len(jobs)}
    return {"coverage": cov, "violations": violations[:5], "known_lines": known_lines}


def custom_replay(path):
    harness.ensure(["h_rational"])
    r = harness.run_one("h_rational", ["replay", path if os.path.isabs(path) else os.path.join(build.ROOT, path)])
    ok = r["rc"] == 0 and not r["ub"] and not r["asan"]
    return ok, (r["stdout"][-500:] + r["stderr"][-500:]).strip()
