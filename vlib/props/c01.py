"""C01 — an unsat answer is never given for a satisfiable assertion set."""
from .. import gen
from . import satcommon

ID = "C01"
VARIANTS = ["fast"]
BUDGET = {"quick": (2400, 110), "thorough": (60000, 1500)}
RULE = ("Hypothesis-generated SMT-LIB scripts over 17 logics x option vectors x push/pop histories (gen.gen_script); "
        "each 'unsat' printed by opensmt is compared with z3+cvc5 on the active assertions (a reference 'sat' counts "
        "only with a z3 model under which every assertion evaluates to true and cvc5 not saying unsat). "
        "Non-trivial = a check-sat answered unsat whose active set has >= 2 distinct atoms; distinct by "
        "(options, logic, sorted active set).")
ASSUMPTIONS = ["z3 5.x and cvc5 1.4 as reference (agreement rule R1)", "timeouts and reference unknowns are inconclusive"]


def generate(rnd, tier):
    script, _, _ = gen.gen_script(rnd, tier)
    return script


def check(case, ctx):
    return satcommon.check_answers(case, ctx, "unsat")


def sample(case, res):
    return gen.render(case)


def _sig_after_internal_error(case, res):
    """a check-sat that itself failed with the internal error "Equality over non-equal sorts" (arrays over Int and over
    Real elements with a common index sort in one script) leaves the solver unsat for the following check-sats"""
    from .. import osmt
    d = res.detail or {}
    if d.get("opensmt") != "unsat" or d.get("reference") != "sat":
        return False
    r = osmt.run_marked(case, "fast", 10)
    idx = d.get("cmd_index", 0)
    for i, c in enumerate(case["cmds"][:idx]):
        if c[0] == "check-sat" and any("Equality over non-equal sorts" in x for x in (r.resp.get(i) or [])):
            return True
    return False


SIGNATURES = {"unsat-after-check-sat-failed-with-sort-error": _sig_after_internal_error}
