"""C02 — a sat answer is never given for an unsatisfiable assertion set."""
from .. import gen
from . import satcommon

ID = "C02"
VARIANTS = ["fast"]
BUDGET = {"quick": (2400, 110), "thorough": (60000, 1500)}
EMPH = ["QF_LIA", "QF_IDL", "QF_RDL", "QF_UFIDL", "QF_UFRDL", "QF_AX", "QF_ALIA", "QF_ALRA", "QF_UFLIA", "QF_UFLRA",
        "QF_AUFLIA", "QF_AUFLIRA", "ALL"]
RULE = ("Hypothesis-generated scripts (gen.gen_script) with completeness emphasis: 70% of cases from integer / difference-logic / "
        "array / UF+arithmetic logics with planted knife-edge shapes (difference cycles of total weight -1/0/+1 with constants "
        "around 2^31, 2^53, 2^63, 10^23; integer boxes; parity equations; div/mod; extensionality; read-over-write; interface "
        "equalities). Each 'sat' printed by opensmt is compared with z3+cvc5 on the active assertions; violation only when both "
        "references say unsat. Non-trivial = check-sat answered sat whose active set has >= 2 distinct atoms; distinct by "
        "(options, logic, sorted active set).")
ASSUMPTIONS = ["z3 5.x and cvc5 1.4 agreeing on unsat", "timeouts and reference unknowns are inconclusive"]


def generate(rnd, tier):
    keys = EMPH if rnd.random() < 0.7 else None
    script, _, _ = gen.gen_script(rnd, tier, logic_keys=keys, planted_p=0.85)
    return script


def check(case, ctx):
    return satcommon.check_answers(case, ctx, "sat")


def sample(case, res):
    return gen.render(case)


def _wrong_sat(res):
    d = res.detail or {}
    return d.get("opensmt") == "sat" and d.get("reference") == "unsat"


from . import sigs  # noqa: E402
SIGNATURES = {
    "ghost-vars-theory-combination-wrong-sat": lambda case, res: _wrong_sat(res) and sigs.ghost_combination_wrong_sat(case),
    "uf-bool-argument-theory-combination-wrong-sat": lambda case, res: _wrong_sat(res) and sigs.boolarg_combination_wrong_sat(case),
    "non-incremental-second-check-sat": lambda case, res: _wrong_sat(res) and sigs.nonincr_second_check(case, (res.detail or {}).get("cmd_index")),
    "lookahead-three-assertion-levels": lambda case, res: _wrong_sat(res) and sigs.lookahead_deep(case, (res.detail or {}).get("cmd_index")),
}
