"""C05 — definitive answers do not depend on the solver configuration."""
import json
from .. import gen, osmt
from ..driver import Result
from . import satcommon

ID = "C05"
VARIANTS = ["fast"]
BUDGET = {"quick": (700, 120), "thorough": (12000, 1500)}
EMBED = {
    "PROP": ["QF_UF", "QF_LRA", "QF_LIA", "QF_AX", "ALL", "QF_UFLRA", "QF_IDL", "QF_RDL"],
    "QF_UF": ["ALL", "QF_UFLRA", "QF_UFLIA", "QF_AUFLIA", "QF_AUFLRA", "QF_UFIDL", "QF_UFRDL", "QF_AUFLIRA"],
    "QF_IDL": ["QF_LIA", "QF_UFLIA", "QF_UFIDL", "ALL", "QF_ALIA", "QF_AUFLIA"],
    "QF_RDL": ["QF_LRA", "QF_UFLRA", "QF_UFRDL", "ALL", "QF_ALRA", "QF_AUFLRA"],
    "QF_LRA": ["QF_UFLRA", "QF_ALRA", "QF_AUFLRA", "ALL", "QF_AUFLIRA"],
    "QF_LIA": ["QF_UFLIA", "QF_ALIA", "QF_AUFLIA", "ALL", "QF_AUFLIRA"],
    "QF_UFIDL": ["QF_UFLIA", "QF_AUFLIA", "ALL"],
    "QF_UFRDL": ["QF_UFLRA", "QF_AUFLRA", "ALL"],
    "QF_UFLRA": ["QF_AUFLRA", "ALL", "QF_AUFLIRA"],
    "QF_UFLIA": ["QF_AUFLIA", "ALL", "QF_AUFLIRA"],
    "QF_AX": ["QF_AUFLIA", "QF_AUFLRA", "ALL", "QF_ALIA", "QF_ALRA"],
    "QF_ALRA": ["QF_AUFLRA", "ALL"],
    "QF_ALIA": ["QF_AUFLIA", "ALL"],
    "QF_AUFLRA": ["ALL", "QF_AUFLIRA"],
    "QF_AUFLIA": ["ALL", "QF_AUFLIRA"],
    "QF_AUFLIRA": ["ALL"],
    "ALL": ["QF_AUFLIRA"],
}
RULE = ("One Hypothesis-generated script (C01 space, with or without push/pop history) is run under K option vectors "
        "(K=5 quick / 10 thorough: random seed, engine default/lookahead/picky/ghost, :incremental true/false with SatELite knobs, "
        "tracking options, substitutions, restart and ccmin settings) and logic embeddings (e.g. QF_IDL->QF_LIA->ALL); "
        "violation iff two runs give sat and unsat at the same check-sat. Non-trivial = script with >= 2 definitive runs whose "
        "first compared check has >= 3 distinct atoms; distinct by (script, option vectors).")
ASSUMPTIONS = ["metamorphic relation only (no reference solver needed to raise the alarm); timeouts/unknown inconclusive"]


def generate(rnd, tier):
    keys = ["QF_IDL", "QF_RDL", "QF_UFIDL", "QF_UFRDL"] if rnd.random() < (0.35 if tier == "quick" else 0.5) else None
    script, sig, tg = gen.gen_script(rnd, tier, logic_keys=keys, engines=False, tracking=set(), incremental=True, queries=False,
                                     named=0.3 if rnd.random() < 0.3 else 0.0)
    script["options"] = []
    has_stack = any(c[0] in ("push", "pop") for c in script["cmds"])
    L = gen.LOGICS[script["lk"]]
    K = 5 if tier == "quick" else 10
    configs = [{"options": [], "logic": script["logic"]}]
    for _ in range(K - 1):
        opts, eng, tr, incr = gen.gen_options(rnd, L, None, True, None if not has_stack else True)
        logic = script["logic"]
        if rnd.random() < 0.4:
            logic = rnd.choice(EMBED[script["lk"]])
            opts = [o for o in opts if o[0] != ":produce-interpolants"]
        configs.append({"options": opts, "logic": logic})
    return {"script": script, "configs": configs}


def check(case, ctx):
    script = case["script"]
    cps = gen.check_points(script)
    answers = []
    classes = ["logic:" + script["lk"]]
    evals = 0
    for cf in case["configs"]:
        s = dict(script)
        s["options"] = cf["options"]
        s["logic"] = cf["logic"]
        r = osmt.run_marked(s, "fast", satcommon.opensmt_timeout(s, ctx.tier))
        evals += 1
        if r.out.timeout or r.out.crashed():
            # answers printed before the timeout are still answers
            classes.append("run-timeout" if r.out.timeout else "run-crash")
        answers.append([r.answer(idx) for idx, _, _ in cps])
        if cf["logic"] != script["logic"]:
            classes.append("embedded")
    nt_key = None
    for ci, (idx, active, _) in enumerate(cps):
        col = [a[ci] for a in answers]
        defin = [a for a in col if a in ("sat", "unsat")]
        if len(defin) >= 2 and nt_key is None and satcommon.atoms_count(active) >= 3:
            nt_key = json.dumps([gen.render(script), case["configs"]])
        if "sat" in col and "unsat" in col:
            i_s, i_u = col.index("sat"), col.index("unsat")
            detail = {"check_index": ci, "answers": col, "config_sat": case["configs"][i_s],
                      "config_unsat": case["configs"][i_u], "script": gen.render(script), "active": active}
            # blame attribution only (not part of the decision)
            try:
                from .. import ref
                detail["reference"] = ref.decide(osmt.ref_decls(script, idx), active, 5000)[0]
            except Exception:
                pass
            return Result("violation", nt_key, classes, detail, evals=evals)
    return Result("ok", nt_key, classes, evals=evals)


def sample(case, res):
    return {"script": gen.render(case["script"]), "configs": case["configs"]}


def shrink(case, ctx):
    """drop configs, then shrink the script structurally"""
    from .. import shrink as shr
    import copy

    def fails(c):
        return check(c, ctx).status == "violation"
    cur = case
    changed = True
    while changed and len(cur["configs"]) > 2:
        changed = False
        for i in range(len(cur["configs"])):
            c = copy.deepcopy(cur)
            del c["configs"][i]
            if fails(c):
                cur = c
                changed = True
                break

    def cands(c):
        for i, cf in enumerate(c["configs"]):
            for j in range(len(cf["options"])):
                d = copy.deepcopy(c)
                del d["configs"][i]["options"][j]
                yield d
        for s in shr.candidates(c["script"]):
            d = copy.deepcopy(c)
            d["script"] = s
            yield d
    return shr.shrink(cur, fails, gen=cands)


SHRINK = "custom"


from . import sigs  # noqa: E402


def _cfg_script(case, cf):
    s = dict(case["script"])
    s["options"] = cf["options"]
    s["logic"] = cf["logic"]
    s["lk"] = cf["logic"]
    return s


def _sig_ghost(case, res):
    d = res.detail or {}
    if d.get("reference") != "unsat":
        return False
    return sigs.ghost_combination_wrong_sat(_cfg_script(case, d["config_sat"]))


def _sig_boolarg(case, res):
    d = res.detail or {}
    if d.get("reference") != "unsat":
        return False
    return sigs.boolarg_combination_wrong_sat(_cfg_script(case, d["config_sat"]))


def _sig_nonincr(case, res):
    d = res.detail or {}
    if d.get("reference") != "unsat":
        return False
    cps = gen.check_points(case["script"])
    ci = d.get("check_index", 0)
    return sigs.nonincr_second_check(_cfg_script(case, d["config_sat"]), cps[ci][0] if ci < len(cps) else None)


SIGNATURES = {"ghost-vars-theory-combination-wrong-sat": _sig_ghost,
              "uf-bool-argument-theory-combination-wrong-sat": _sig_boolarg,
              "non-incremental-second-check-sat": _sig_nonincr}
