"""C30 — check-sat always returns outside integer arithmetic."""
import json, time
from .. import gen, osmt, ref, run
from ..driver import Result
from . import sigs

ID = "C30"
VARIANTS = ["fast"]
BUDGET = {"quick": (1100, 110), "thorough": (20000, 1500)}
JOBS = 12
RULE = ("Hypothesis-generated small instances (<= 8 assertions, history <= 8) in the integer-free logics (propositional, UF, "
        "LRA, RDL, arrays and combinations), each run under the default configuration and under 2 (quick) / 5 (thorough) other "
        "generated configurations (engines lookahead/picky/ghost, :incremental false + SatELite knobs, tracking options, "
        "restart/ccmin/random settings); a quarter of the instances in UF/array + real-arithmetic logics get top-level equalities that define a term through a term containing it (x = a[x]+1, f(x) = g(f(x))+1); LRA instances biased to degenerate systems (homogeneous rows, zero bounds, duplicated and "
        "dependent rows). An instance qualifies only if the default engine answers every check-sat in < 1 s (under the plain configuration, or - when that one is slow - under another generated configuration or a tracking option; the plain configuration is then judged too) and z3 and "
        "cvc5 each decide every active set in < 1 s. Oracle (the property's own wording): a configuration that has not finished "
        "after max(T, 200 x default time), T = 12 s quick / 60 s thorough, is re-run twice; three time-outs = violation. "
        "Non-trivial = qualifying instance finished under a non-default engine or with push/pop; distinct by (script, options).")
ASSUMPTIONS = ["time-based decision rule as stated; machine not overloaded beyond 200x", "z3/cvc5 only qualify instances"]


def degenerate_lra(rnd, sig):
    vs = sig.vars.get("Real", [])
    out = []
    if len(vs) < 2:
        return out
    rows = []
    for _ in range(rnd.randint(2, 5)):
        k = rnd.randint(2, min(3, len(vs)))
        xs = rnd.sample(vs, k)
        row = [(rnd.choice([-2, -1, 1, 2, 3]), x) for x in xs]
        rows.append(row)
    rows += [rnd.choice(rows) for _ in range(rnd.randint(0, 2))]                      # duplicated rows
    if len(rows) >= 2:
        a, b = rnd.sample(rows, 2)
        rows.append([(2 * c, x) for c, x in a] + [(c, x) for c, x in b])               # dependent row
    for row in rows:
        lhs = "(+ %s)" % " ".join("(* %s %s)" % (gen.real_lit(rnd, c), x) for c, x in row) if len(row) > 1 else \
            "(* %s %s)" % (gen.real_lit(rnd, row[0][0]), row[0][1])
        out.append("(%s %s %s)" % (rnd.choice(["<=", ">=", "<=", ">=", "<", "="]), lhs, gen.real_lit(rnd, rnd.choice([0, 0, 0, 1, -1]))))
    for x in rnd.sample(vs, rnd.randint(0, len(vs))):
        out.append("(%s %s 0.0)" % (rnd.choice([">=", "<=", ">="]), x))
    return out


def selfref(rnd, script, L, sig):
    """Top-level equalities in which a term is defined through a term that contains it (x = a[x] + 1, f(x) = g(f(x)) + 1)
    and the containing term occurs in further equalities: the equality-solving preprocessing must not turn them into a cyclic
    substitution."""
    vs = sig.vars.get("Real", [])
    if len(vs) < 2 or L["dl"] or not (L["uf"] or L["arrays"]):
        return []
    x, y = rnd.sample(vs, 2)
    z = rnd.choice(vs)
    wrappers = []
    if L["uf"]:
        for n in ("sr_f", "sr_g"):
            d = "(declare-fun %s (Real) Real)" % n
            if d not in script["decls"]:
                script["decls"].append(d)
        wrappers += ["uf", "uf2"]
    if L["arrays"]:
        d = "(declare-fun sr_a () (Array Real Real))"
        if d not in script["decls"]:
            script["decls"].append(d)
        wrappers += ["arr"]
    k = rnd.choice(wrappers)
    if k == "uf":
        t, w = x, "(sr_g %s)" % x
    elif k == "uf2":
        t = "(sr_f %s)" % x
        w = "(sr_g %s)" % t
    else:
        t, w = x, "(select sr_a %s)" % x
    c = [gen.real_lit(rnd, rnd.randint(-3, 3)) for _ in range(3)]
    if rnd.random() < 0.35:
        # the cycle goes through two definitions: x through a term over y, y through a term over x
        wx = w.replace(x, "@").replace("@", y) if k != "uf2" else "(sr_g (sr_f %s))" % y
        ty = y if k != "uf2" else "(sr_f %s)" % y
        out = ["(= %s (+ %s %s))" % (t, wx, c[0]), "(= %s (+ %s %s))" % (ty, w, c[1])]
        if rnd.random() < 0.5:
            out.append("(= (+ %s %s) (+ %s %s))" % (z, y, w, c[2]))
        rnd.shuffle(out)
        return out
    out = ["(= %s (+ %s %s))" % (t, w, c[0])]
    others = ["(= %s (+ %s %s))" % (w, y, c[1]), "(= (+ %s %s) (+ %s %s))" % (z, y, w, c[2]), "(= %s (+ %s %s))" % (w, x, c[2]),
              "(= (- %s %s) (+ %s %s))" % (z, y, w, c[1])]
    out += rnd.sample(others, rnd.randint(1, 3))
    rnd.shuffle(out)
    return out


def generate(rnd, tier):
    script, sig, tg = gen.gen_script(rnd, "quick", logic_keys=gen.INT_FREE_KEYS, engines=False, tracking=set(), incremental=True,
                                     queries=False, max_hist=8, depth=rnd.randint(1, 2), big=False)
    L = gen.LOGICS[script["lk"]]
    if L["reals"] and not L["dl"] and rnd.random() < 0.5:
        extra = degenerate_lra(rnd, sig)
        lead = 0
        while lead < len(script["cmds"]) and script["cmds"][lead][0] == "define-fun":
            lead += 1
        for t in extra:
            script["cmds"].insert(rnd.randint(lead, max(lead, len(script["cmds"]) - 1)), ["assert", t])
    if rnd.random() < 0.25:
        extra = selfref(rnd, script, L, sig)
        lead = 0
        while lead < len(script["cmds"]) and script["cmds"][lead][0] == "define-fun":
            lead += 1
        pos = rnd.randint(lead, max(lead, len(script["cmds"]) - 1))
        script["cmds"][pos:pos] = [["assert", t] for t in extra]      # one frame: consecutive commands
    script["options"] = []
    has_stack = any(c[0] in ("push", "pop") for c in script["cmds"])
    K = 2 if tier == "quick" else 5
    configs = []
    for _ in range(K):
        opts, eng, tr, incr = gen.gen_options(rnd, L, None, True, True if has_stack else None)
        if eng == "default" and rnd.random() < 0.6:
            eng2 = rnd.choice(["lookahead", "picky", "ghost"])
            opts.append({"lookahead": [":pure-lookahead", "true"], "picky": [":picky", "true"], "ghost": [":ghost-vars", "true"]}[eng2])
        configs.append(opts)
    # known finding: the lookahead engines loop whenever no decision variable is left unassigned; 85% of the cases skip them
    return {"script": script, "configs": configs, "skip_la": rnd.random() < 0.85}


def timed(script, to):
    t0 = time.time()
    r = osmt.run_marked(script, "fast", to)
    return r, time.time() - t0


def _known_ids(ctx):
    if "known" not in ctx.cache:
        from ..driver import load_known
        ctx.cache["known"] = {e["id"] for e in load_known(ID)}
    return ctx.cache["known"]


def check(case, ctx):
    script = case["script"]
    T = 12.0 if ctx.tier == "quick" else 60.0
    classes = ["logic:" + script["lk"]]
    r0, t0 = timed(script, 5.0)
    plain_slow = False
    if r0.out.crashed():
        return Result("inconclusive", None, classes + ["not-qualifying:default-slow-or-crash"])
    if r0.out.timeout or t0 >= 1.0:
        # the plain configuration is slow: the instance still qualifies if the default engine decides it in well under a
        # second under another configuration of the space (tracking options change the preprocessing); the plain
        # configuration is then judged like every other one
        alts = [o for o in case["configs"] if not any(k in (":pure-lookahead", ":picky", ":ghost-vars") for k, _ in o)]
        alts += [[[":produce-interpolants", "true"]], [[":produce-proofs", "true"]]]
        t0 = None
        for o in alts[:4]:
            s = dict(script)
            s["options"] = o
            ra, ta = timed(s, 3.0)
            if not ra.out.timeout and not ra.out.crashed() and ta < 1.0 and \
                    all(ra.answer(i) in ("sat", "unsat") for i, _, _ in gen.check_points(script)):
                t0 = ta
                break
        if t0 is None:
            return Result("inconclusive", None, classes + ["not-qualifying:default-slow-or-crash"])
        plain_slow = True
        classes.append("qualified-by-other-default-engine-configuration")
    for idx, active, _ in gen.check_points(script):
        ta = time.time()
        rr = ref.decide(osmt.ref_decls(script, idx), active, 1000)
        if rr[0] == "unknown" or time.time() - ta > 2.0:
            return Result("inconclusive", None, classes + ["not-qualifying:reference-slow"])
    has_stack = any(c[0] in ("push", "pop") for c in script["cmds"])
    nt_key = None
    evals = 1
    limit = max(T, 200 * t0)
    for opts in ([[]] if plain_slow else []) + case["configs"]:
        s = dict(script)
        s["options"] = opts
        eng = "default"
        for k, _ in opts:
            if k in (":pure-lookahead", ":picky", ":ghost-vars"):
                eng = k
        # known finding excluded by construction: lookahead engines loop on a check-sat inside a pushed level when
        # every variable is already assigned; only its stored replay keeps it visible
        if "lookahead-pushed-level-loop" in _known_ids(ctx) and sigs.is_lookahead(s) and (has_stack or case.get("skip_la", True)):
            classes.append("excluded-known:lookahead")
            continue
        r, t = timed(s, limit)
        evals += 1
        classes.append("engine:" + eng)
        if r.out.timeout:
            again = [timed(s, limit)[0].out.timeout for _ in range(2 if ctx.tier != "quick" else 1)]
            if all(again):
                detail = {"what": "no-answer: check-sat did not return", "options": opts, "limit_s": limit, "default_time_s": t0,
                          "script": gen.render(s)}
                return Result("violation", nt_key, classes, detail, evals=evals)
            classes.append("slow-once")
        else:
            if eng != "default" or has_stack:
                nt_key = json.dumps([gen.render(script), opts])
                classes.append("nt")
    return Result("ok", nt_key, classes, evals=evals)


def shrink(case, ctx):
    import copy
    from .. import shrink as shr
    cur = copy.deepcopy(case)
    # keep only the failing configuration
    for opts in case["configs"]:
        c = copy.deepcopy(case)
        c["configs"] = [opts]
        if check(c, ctx).status == "violation":
            cur = c
            break

    def fails(c):
        return check(c, ctx).status == "violation"

    def cands(c):
        for j in range(len(c["configs"][0])):
            d = copy.deepcopy(c)
            del d["configs"][0][j]
            yield d
        for s in shr.candidates(c["script"]):
            d = copy.deepcopy(c)
            d["script"] = s
            yield d
    return shr.shrink(cur, fails, gen=cands, max_rounds=8 if ctx.tier == "quick" else 25, max_s=150 if ctx.tier == "quick" else 900)


SHRINK = "custom"


def _sig_la(case, res):
    d = res.detail or {}
    s = dict(case["script"])
    s["options"] = d.get("options", [])
    return sigs.is_lookahead(s)


SIGNATURES = {"lookahead-check-sat-inside-pushed-level-loops": _sig_la}


def sample(case, res):
    return {"script": gen.render(case["script"]), "configs": case["configs"]}
