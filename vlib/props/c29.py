"""C29 — input outside the declared logic is rejected, never answered wrongly."""
import json
from .. import gen, osmt, ref
from ..driver import Result
from . import satcommon
from .c03 import strip_names

ID = "C29"
VARIANTS = ["fast"]
BUDGET = {"quick": (2200, 110), "thorough": (50000, 1500)}
# (grammar used for the terms, logic that is declared)
PAIRS = [("QF_LIA", "QF_IDL"), ("QF_LRA", "QF_RDL"), ("QF_UFLIA", "QF_UFIDL"), ("QF_UFLRA", "QF_UFRDL"),
         ("QF_LIA", "QF_IDL"), ("QF_LRA", "QF_RDL"),
         ("QF_UFLRA", "QF_LRA"), ("QF_UFLIA", "QF_LIA"), ("QF_UF", "QF_LRA"), ("QF_ALIA", "QF_LIA"), ("QF_AX", "QF_UF"),
         ("QF_AUFLIRA", "QF_UFLRA"), ("QF_AUFLIRA", "QF_UFLIA"), ("QF_LIA", "QF_LRA"), ("QF_LRA", "QF_LIA"),
         ("QF_UFLIA", "QF_IDL"), ("QF_ALRA", "QF_RDL")]
RULE = ("Hypothesis-generated well-sorted scripts whose terms come from a wider grammar than the declared logic: linear atoms "
        "with >= 3 variables / non-unit coefficients / sums under QF_IDL, QF_RDL, QF_UFIDL, QF_UFRDL; UF applications in UF-free "
        "logics; arrays in array-free logics; Int terms in Real-only logics and vice versa; products of variables in any "
        "arithmetic logic. Oracle per check-sat: an error response or 'unknown' is accepted; a definitive answer must equal the "
        "z3+cvc5 verdict (logic ALL) on the assertions that were accepted (not answered with an error) and are active by our "
        "stack model. Non-trivial = definitive answer on a set containing >= 1 accepted out-of-fragment assertion (an arithmetic "
        "atom with >= 3 variables, a non-unit coefficient or a product, or a symbol the declared logic lacks); distinct by "
        "(logic, active set).")
ASSUMPTIONS = ["z3+cvc5 reference (R1)", "process aborts are C18's business and count as inconclusive here"]


def generate(rnd, tier):
    wide, narrow = rnd.choice(PAIRS)
    script, sig, tg = gen.gen_script(rnd, tier, logic_keys=[wide], queries=False, engines=False,
                                     tracking=set() if rnd.random() < 0.7 else None, planted_p=0.6, big=rnd.random() < 0.4)
    script["logic"] = narrow
    script["wide"] = wide
    # non-linear products and n-ary / chained arithmetic operators
    if rnd.random() < 0.3:
        nums = [s for s in ("Int", "Real") if len(sig.vars.get(s, [])) >= 2]
        if nums:
            s = rnd.choice(nums)
            x, y = rnd.sample(sig.vars[s], 2)
            lit = (lambda v: gen.int_lit(v)) if s == "Int" else (lambda v: gen.real_lit(rnd, v))
            vx, vy = rnd.randint(-3, 4), rnd.randint(-3, 4)
            c, k1, k2 = rnd.choice([2, 3, -2, 5]), rnd.randint(-2, 3), rnd.randint(-2, 3)
            shapes = [("(* %s %s)" % (x, y), vx * vy),
                      ("(* %s %s %s)" % (lit(c), x, y), c * vx * vy),
                      ("(* %s %s (+ %s %s))" % (lit(c), y, x, lit(k1)), c * vy * (vx + k1)),
                      ("(* (+ %s %s) %s)" % (x, lit(k1), y), (vx + k1) * vy),
                      ("(* %s (+ %s %s) (+ %s %s))" % (lit(c), x, lit(k1), y, lit(k2)), c * (vx + k1) * (vy + k2)),
                      ("(* (+ %s %s) %s %s)" % (x, lit(k1), lit(c), y), (vx + k1) * c * vy),
                      ("(* %s %s)" % (x, x), vx * vx),
                      ("(* %s %s %s)" % (lit(c), x, lit(k1 or 2)), c * vx * (k1 or 2))]
            if s == "Int" and vy != 0:
                d = abs(c)
                q = (vx - (vx % d)) // d          # Euclidean quotient for a positive divisor
                shapes.append(("(div %s %s %s)" % (x, lit(d), y), None))   # left-associative chain: (div (div x d) y)
                shapes.append(("(div (div %s %s) %s)" % (x, lit(d), y), None))
            term, val = rnd.choice(shapes)
            if val is None:
                av = abs(vy)
                qq = (q - (q % av)) // av
                val = qq if vy > 0 else -qq
            extra = [["assert", "(= %s %s)" % (x, lit(vx))], ["assert", "(= %s %s)" % (y, lit(vy))],
                     ["assert", "(%s %s %s)" % (rnd.choice(["=", "=", "<=", ">=", "distinct"]), term, lit(val + rnd.choice([0, 0, 1, -1])))]]
            if rnd.random() < 0.5:
                # the three assertions alone decide the answer
                script["cmds"] = [cc for cc in script["cmds"] if cc[0] == "define-fun"] + extra + [["check-sat"]]
            else:
                pos = rnd.randint(0, max(0, len(script["cmds"]) - 1))
                script["cmds"][pos:pos] = extra
    return script


def out_of_fragment(term, narrow):
    from ..sexpr import parse_one, atoms
    try:
        e = parse_one(term)
    except Exception:
        return False
    found = [False]

    def numvars(x, acc):
        if isinstance(x, str):
            if x and (x[0] in "ir") and x[1:].isdigit():
                acc.add(x)
        else:
            for y in x:
                numvars(y, acc)

    def walk(x):
        if isinstance(x, list) and x:
            if x[0] in ("<=", "<", ">=", ">", "=", "distinct") and narrow.endswith("DL"):
                vs = set()
                numvars(x, vs)
                if len(vs) >= 3:
                    found[0] = True
            if x[0] == "*":
                if narrow.endswith("DL"):
                    found[0] = True
                vs1, vs2 = set(), set()
                if len(x) == 3:
                    numvars(x[1], vs1)
                    numvars(x[2], vs2)
                    if vs1 and vs2:
                        found[0] = True
            if x[0] in ("select", "store") and not narrow.startswith("QF_A"):
                found[0] = True
            if isinstance(x[0], str) and x[0].startswith("f") and x[0][1:].isdigit() and "UF" not in narrow:
                found[0] = True
            for y in x:
                walk(y)
    walk(e)
    return found[0]


def check(case, ctx):
    script = case
    tms = 5000 if ctx.tier == "quick" else 15000
    r = osmt.run_marked(script, "fast", 10)
    classes = ["pair:%s->%s" % (script.get("wide"), script["logic"])]
    if r.out.timeout:
        return Result("inconclusive", None, classes + ["opensmt-timeout"])
    if r.out.crashed():
        return Result("inconclusive", None, classes + ["opensmt-crash"])
    # accepted script: drop assertions answered with an error
    acc = dict(script)
    rejected = set()
    for i, c in enumerate(script["cmds"]):
        if c[0] in ("assert", "assert-named", "define-fun") and any(x.startswith("(error") for x in (r.resp.get(i) or [])):
            rejected.add(i)
    if any(x.startswith("(error") for x in (r.resp.get(-1) or [])):
        classes.append("declaration-rejected")
    classes.append("rejected-assertions" if rejected else "all-accepted")
    nt_key = None
    status = "ok"
    levels = [[]]
    for idx, c in enumerate(script["cmds"]):
        k = c[0]
        if k in ("assert", "assert-named") and idx not in rejected:
            levels[-1].append(c[1])
        elif k == "push":
            if not any(x.startswith("(error") for x in (r.resp.get(idx) or [])):
                for _ in range(c[1]):
                    levels.append([])
        elif k == "pop":
            if not any(x.startswith("(error") for x in (r.resp.get(idx) or [])):
                for _ in range(min(c[1], len(levels) - 1)):
                    levels.pop()
        elif k == "check-sat":
            ans = r.answer(idx)
            classes.append("answer:" + str(ans))
            if ans not in ("sat", "unsat"):
                continue
            active = [strip_names(t) for lv in levels for t in lv]
            decls = [d for d in script["decls"]] + [gen.render_cmd(cc) for j, cc in enumerate(script["cmds"][:idx])
                                                    if cc[0] == "define-fun" and j not in rejected]
            rr = ref.decide(decls, active, tms)
            classes.append("ref:" + rr[0])
            if rr[0] == "unknown":
                status = "inconclusive"
                continue
            oof = any(out_of_fragment(t, script["logic"]) for t in active)
            if oof:
                nt_key = json.dumps([script["logic"], sorted(active)])
                classes.append("nt")
            if rr[0] != ans:
                detail = {"what": "wrong-%s-outside-logic" % ans, "opensmt": ans, "reference": rr[0], "witness_model": rr[1],
                          "declared_logic": script["logic"], "active": active, "script": gen.render(script), "cmd_index": idx}
                return Result("violation", nt_key, classes, detail)
    return Result(status, nt_key, classes)


def sample(case, res):
    return gen.render(case)


def _sig_dl(case, res):
    d = res.detail or {}
    if not str(d.get("what", "")).startswith("wrong-"):
        return False
    if not case["logic"].endswith("DL"):
        return False
    act = d.get("active", [])
    return any(out_of_fragment(t, case["logic"]) or "(div " in t or "(mod " in t or "(* " in t or "(+ " in t or "(/ " in t
               for t in act)


def _sig_uf_in_arith(case, res):
    d = res.detail or {}
    if d.get("what") != "wrong-sat-outside-logic":
        return False
    if case["logic"] not in ("QF_LRA", "QF_LIA", "QF_RDL", "QF_IDL"):
        return False
    return any(x.startswith("(declare-sort") for x in case["decls"]) or \
        any(x.startswith("(declare-fun f") or "(Array " in x for x in case["decls"])


def _family(name):
    def f(case, res):
        from . import sigs
        d = res.detail or {}
        return d.get("what") == "wrong-sat-outside-logic" and sigs.WRONG_SAT_FAMILIES[name](case, d.get("cmd_index"))
    return f


SIGNATURES = {"non-difference-atom-in-difference-logic": _sig_dl,
              "uninterpreted-symbols-in-pure-arithmetic-logic": _sig_uf_in_arith,
              "uf-bool-argument-theory-combination-wrong-sat": _family("uf-bool-argument-theory-combination-wrong-sat"),
              "non-incremental-second-check-sat": _family("non-incremental-second-check-sat")}
