"""C24 — solver instances in different threads do not interfere (rapidcheck harness under TSan and ASan/UBSan)."""
from . import thrcommon

ID = "C24"
VARIANTS = ["san", "tsan"]
RULE = ("harness/h_threads.cc (mode threads), built against the ThreadSanitizer library and against the ASan/UBSan library: "
        "rapidcheck draws 2..8 problems (QF_LRA, QF_LIA, QF_UF, QF_UFLRA built through the API from a drawn seed; half of them with "
        "coefficients 2^32+1 .. 2^128+51 that force the arbitrary-precision path) and a start delay per thread; each problem is "
        "first solved alone, then all are solved concurrently, each thread with its own Logic / SMTConfig / MainSolver. Oracle: "
        "every concurrent answer equals the solo answer; no ThreadSanitizer report, no ASan/UBSan report, no crash. "
        "Non-trivial = run with >= 2 threads that work on big-coefficient arithmetic instances; counted per run.")
ASSUMPTIONS = ["the OS scheduler chooses the interleavings (sampled, not enumerated)", "TSan happens-before race detection"]


def custom_run(tier, seed):
    return thrcommon.run(ID, "threads", tier, seed, 25, 400)


def custom_replay(path):
    return thrcommon.replay(path)
