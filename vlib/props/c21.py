"""C21 — names and definitions follow the assertion-stack scopes (model-based testing of command histories)."""
import json
from .. import gen, osmt, sexpr
from ..driver import Result

ID = "C21"
VARIANTS = ["fast"]
BUDGET = {"quick": (4000, 100), "thorough": (60000, 1200)}
RULE = ("Hypothesis-generated histories over push n / pop n / (assert (! t :named n)) top-level and nested / define-fun / calls of "
        "defined functions / re-introduction of names and functions (visible or popped) / check-sat followed by get-assignment, "
        "get-unsat-core and get-interpolants with name arguments; :global-declarations drawn per run; tracking options "
        "assignments+cores(+interpolants). Oracle: a Python scope model (stack of name tables; one flat table with global "
        "declarations) predicts for every command whether it must be accepted: introducing a name or function succeeds iff it is "
        "not visible; a call of a defined function and a name in get-interpolants are accepted iff visible; every name printed by "
        "get-assignment / get-unsat-core is visible in the model; with global declarations names and functions survive pop. "
        "Non-trivial = history with a pop of a level that introduced a name or function and a later command that mentions it; "
        "distinct by text.")
ASSUMPTIONS = ["our scope model of SMT-LIB push/pop and :global-declarations"]
NAMES = ["n0", "n1", "n2"]
FUNS = ["g0", "g1"]
BV = ["b0", "b1", "b2", "b3"]


def term(rnd, d=2):
    if d <= 0 or rnd.random() < 0.3:
        v = rnd.choice(BV)
        return v if rnd.random() < 0.6 else "(not %s)" % v
    op = rnd.choice(["and", "or", "=", "xor"])
    return "(%s %s %s)" % (op, term(rnd, d - 1), term(rnd, d - 1))


def generate(rnd, tier):
    glob = rnd.random() < 0.35
    itp = rnd.random() < 0.3
    opts = [[":produce-assignments", "true"], [":produce-unsat-cores", "true"]]
    if itp:
        opts.append([":produce-interpolants", "true"])
    if glob:
        opts.append([":global-declarations", "true"])
    if rnd.random() < 0.3:
        opts.append([":print-success", "true"])
    cmds = []
    depth = 0
    if rnd.random() < 0.7:
        cmds.append(["push", 1])
        depth = 1
    n = rnd.randint(6, 16 if tier == "quick" else 30)
    for _ in range(n):
        r = rnd.random()
        if r < 0.28:
            nm = rnd.choice(NAMES)
            if rnd.random() < 0.7:
                cmds.append(["named", nm, term(rnd), "top"])
            else:
                cmds.append(["named", nm, term(rnd, 1), "nested:" + term(rnd, 1)])
        elif r < 0.42:
            f = rnd.choice(FUNS)
            ar = rnd.randint(0, 2)
            body = term(rnd, 1) if ar == 0 else "(and p0 %s)" % term(rnd, 1) if ar == 1 else "(xor p0 p1)"
            cmds.append(["define", f, ar, body])
        elif r < 0.54:
            f = rnd.choice(FUNS)
            ar = rnd.randint(0, 2)
            cmds.append(["call", f, ar, [rnd.choice(BV) for _ in range(ar)]])
        elif r < 0.66 and depth < 4:
            k = 1 if rnd.random() < 0.85 else 2
            cmds.append(["push", k])
            depth += k
        elif r < 0.8 and depth > 0:
            k = 1 if rnd.random() < 0.8 else rnd.randint(1, depth)
            cmds.append(["pop", k])
            depth -= k
        elif r < 0.9:
            cmds.append(["assert", term(rnd)])
        else:
            cmds.append(["check"])
    cmds.append(["check"])
    return {"options": opts, "cmds": cmds, "global": glob, "itp": itp}


def to_script(case):
    cmds = []
    for c in case["cmds"]:
        k = c[0]
        if k == "named":
            if c[3] == "top":
                cmds.append(["raw", "(assert (! %s :named %s))" % (c[2], c[1])])
            else:
                cmds.append(["raw", "(assert (or (! %s :named %s) %s))" % (c[2], c[1], c[3][7:])])
        elif k == "define":
            params = " ".join("(p%d Bool)" % i for i in range(c[2]))
            cmds.append(["raw", "(define-fun %s (%s) Bool %s)" % (c[1], params, c[3])])
        elif k == "call":
            t = c[1] if c[2] == 0 else "(%s %s)" % (c[1], " ".join(c[3]))
            cmds.append(["raw", "(assert (or %s b0 (not b0)))" % t])
        elif k in ("push", "pop"):
            cmds.append([k, c[1]])
        elif k == "assert":
            cmds.append(["assert", c[1]])
        elif k == "check":
            cmds.append(["check-sat"])
            cmds.append(["get-assignment"])
            cmds.append(["get-unsat-core"])
            if case.get("itp"):
                cmds.append(["raw", "(get-interpolants %s %s)" % (NAMES[0], NAMES[1])])
    return {"options": case["options"], "logic": "QF_UF", "decls": ["(declare-fun %s () Bool)" % b for b in BV], "cmds": cmds}


def check(case, ctx):
    script = to_script(case)
    r = osmt.run_marked(script, "fast", 10)
    glob = case["global"]
    classes = ["global" if glob else "scoped"]
    if r.out.timeout or r.out.crashed():
        return Result("inconclusive", None, classes + ["crash-or-timeout"])
    # scope model
    names = [dict()]   # level -> {name: True}
    funs = [dict()]    # level -> {fname: arity}
    popped_names, popped_funs = set(), set()
    mentioned_after_pop = False
    text = gen.render(script)

    def vis_name(n):
        return any(n in lv for lv in names)

    def vis_fun(f):
        for lv in funs:
            if f in lv:
                return lv[f]
        return None

    def viol(what, idx, extra=None):
        d = {"what": what, "cmd_index": idx, "command": gen.render_cmd(script["cmds"][idx]), "response": r.resp.get(idx),
             "script": text, "global_declarations": glob}
        if extra:
            d.update(extra)
        return Result("violation", text if mentioned_after_pop else None, classes, d)
    si = 0
    state = None
    for c in case["cmds"]:
        k = c[0]
        idx = si
        resp = r.resp.get(idx) or []
        err = any(x.startswith("(error") for x in resp)
        if k == "named":
            si += 1
            n = c[1]
            if n in popped_names:
                mentioned_after_pop = True
            if vis_name(n):
                if not err:
                    return viol("duplicate-name-accepted: %s is visible" % n, idx)
                classes.append("dup-name-rejected")
            else:
                if err:
                    return viol("fresh-or-popped-name-rejected: %s is not visible" % n, idx)
                names[-1 if not glob else 0][n] = True
                classes.append("name-introduced" + ("-again" if n in popped_names else ""))
            state = None
        elif k == "define":
            si += 1
            f = c[1]
            if f in popped_funs:
                mentioned_after_pop = True
            if vis_fun(f) is not None:
                if not err:
                    return viol("duplicate-function-accepted: %s is visible" % f, idx)
                classes.append("dup-fun-rejected")
            else:
                if err:
                    return viol("fresh-or-popped-function-rejected: %s is not visible" % f, idx)
                funs[-1 if not glob else 0][f] = c[2]
                classes.append("fun-introduced" + ("-again" if f in popped_funs else ""))
        elif k == "call":
            si += 1
            f = c[1]
            ar = vis_fun(f)
            if f in popped_funs:
                mentioned_after_pop = True
            if ar is None:
                if not err:
                    return viol("call-of-invisible-function-accepted: %s" % f, idx)
                classes.append("invisible-call-rejected")
            elif ar == c[2]:
                if err:
                    return viol("call-of-visible-function-rejected: %s" % f, idx)
                classes.append("visible-call-accepted")
            state = None
        elif k == "push":
            si += 1
            for _ in range(c[1]):
                names.append(dict())
                funs.append(dict())
            state = None
        elif k == "pop":
            si += 1
            for _ in range(c[1]):
                if len(names) > 1:
                    ln, lf = names.pop(), funs.pop()
                    popped_names |= set(ln)
                    popped_funs |= set(lf)
            classes.append("pop")
            state = None
        elif k == "assert":
            si += 1
            state = None
        elif k == "check":
            ans = r.answer(si)
            si += 1
            # get-assignment
            ga = r.resp.get(si) or []
            si += 1
            guc = r.resp.get(si) or []
            si += 1
            visible = {n for lv in names for n in lv}
            for out, what in ((ga, "get-assignment"), (guc, "get-unsat-core")):
                if len(out) == 1 and not out[0].startswith("(error"):
                    try:
                        e = sexpr.parse_one(out[0])
                    except Exception:
                        continue
                    listed = set()
                    for x in e if isinstance(e, list) else []:
                        listed.add(x[0] if isinstance(x, list) and x else x)
                    for n in listed:
                        if isinstance(n, str) and n in NAMES and n not in visible:
                            mentioned_after_pop = True
                            return viol("%s-prints-invisible-name: %s" % (what, n), si - (2 if what == "get-assignment" else 1))
                    if listed & popped_names:
                        mentioned_after_pop = True
                    classes.append(what + "-ok")
            if case.get("itp"):
                gi = r.resp.get(si) or []
                if ans == "unsat":
                    both = vis_name(NAMES[0]) and vis_name(NAMES[1])
                    rejected = any("Unknown symbol" in x or "Invalid arguments" in x for x in gi)
                    if not both and gi and not any(x.startswith("(error") for x in gi):
                        return viol("get-interpolants-accepts-invisible-name", si)
                    if NAMES[0] in popped_names or NAMES[1] in popped_names:
                        mentioned_after_pop = True
                si += 1
    nt_key = text if (mentioned_after_pop and (popped_names or popped_funs)) else None
    if nt_key:
        classes.append("nt")
    return Result("ok", nt_key, classes)


def shrink(case, ctx):
    import copy
    cur = copy.deepcopy(case)
    k0 = check(cur, ctx).kind

    def fails(c):
        r = check(c, ctx)
        return r.status == "violation" and r.kind == k0

    def ok_stack(c):
        d = 0
        for x in c["cmds"]:
            if x[0] == "push":
                d += x[1]
            if x[0] == "pop":
                d -= x[1]
                if d < 0:
                    return False
        return True
    progress = True
    rounds = 0
    while progress and rounds < 300:
        progress = False
        for i in range(len(cur["cmds"])):
            c = copy.deepcopy(cur)
            del c["cmds"][i]
            rounds += 1
            if ok_stack(c) and fails(c):
                cur = c
                progress = True
                break
    return cur


SHRINK = "custom"


def sample(case, res):
    return gen.render(to_script(case))
