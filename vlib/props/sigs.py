"""Signature predicates for known findings (known_findings.json). Each takes the *script* of a failing case and,
where needed, the violation detail; they are deliberately narrow: option/shape that the defect needs + symptom."""
from .. import gen, validators as V


def _L(script):
    return gen.LOGICS.get(script.get("lk") or script["logic"]) or gen.LOGICS.get(script["logic"]) or {}


def opts(script):
    return {k: v for k, v in script["options"]}


def is_ghost(script):
    return opts(script).get(":ghost-vars") == "true"


def has_boolarg_uf(script):
    for d in script["decls"]:
        if d.startswith("(declare-fun"):
            rk = V.decl_rank(d)
            if rk and "Bool" in rk[1]:
                return True
    return False


def arith_combined(script):
    """UF or arrays combined with arithmetic (theory combination is active)."""
    name = script["logic"]
    return name in ("QF_UFLRA", "QF_UFLIA", "QF_UFRDL", "QF_UFIDL", "QF_ALRA", "QF_ALIA", "QF_AUFLRA", "QF_AUFLIA",
                    "QF_AUFLIRA", "ALL")


def ghost_combination_wrong_sat(script):
    """':ghost-vars true' leaves theory atoms that occur in no unsatisfied clause undecided; interface equalities of
    theory combination and the atoms of div/mod and equality-splitting definitions are then never checked, so 'sat'
    is answered on unsatisfiable sets in every logic with arithmetic."""
    name = script["logic"]
    return is_ghost(script) and name not in ("QF_UF", "QF_AX")


def boolarg_combination_wrong_sat(script):
    return has_boolarg_uf(script) and arith_combined(script)


def recheck_of_unsat_state(case, idx):
    """The check-sat before command idx decides a set that contains a set already answered unsat by an earlier
    check-sat (the unsat frame is still on the stack, so the solver answers without solving again)."""
    from .. import osmt as _o
    cps = [(i, [tuple(x) for x in act]) for i, c, act in gen.stack_walk(case) if c[0] == "check-sat"]
    cur = [x for x in cps if x[0] < idx]
    if len(cur) < 2:
        return False
    j, act_j = cur[-1]
    r = _o.run_marked(case, "fast", 10)
    for k, act_k in cur[:-1]:
        if r.answer(k) == "unsat" and all(x in act_j for x in act_k):
            return True
    return False


def is_lookahead(script):
    o = opts(script)
    return o.get(":pure-lookahead") == "true" or o.get(":picky") == "true"


def max_depth_before(script, idx=None):
    d = m = 0
    for i, c in enumerate(script["cmds"]):
        if idx is not None and i >= idx:
            break
        if c[0] == "push":
            d += c[1]
        elif c[0] == "pop":
            d = max(0, d - c[1])
        m = max(m, d)
    return m


def lookahead_deep(script, idx=None):
    """':pure-lookahead' / ':picky' with three or more assertion levels pushed: clauses of the innermost frames are
    ignored ('unsatisfied clause' is even printed), sat is answered on unsat sets and models are wrong."""
    return is_lookahead(script) and max_depth_before(script, idx) >= 3


def uf_arith_after_pop(script, idx=None):
    name = script["logic"]
    if name not in ("QF_UFLRA", "QF_UFLIA", "QF_UFRDL", "QF_UFIDL", "QF_AUFLRA", "QF_AUFLIA", "QF_AUFLIRA", "ALL"):
        return False
    return any(c[0] == "pop" for c in script["cmds"][:idx])


def nonincr_second_check(script, idx=None):
    """':incremental false' and the check is not the first one of the script"""
    if opts(script).get(":incremental") != "false":
        return False
    n = sum(1 for c in script["cmds"][:idx] if c[0] == "check-sat")
    return n >= 1


WRONG_SAT_FAMILIES = {
    "ghost-vars-theory-combination-wrong-sat": lambda s, idx: ghost_combination_wrong_sat(s),
    "uf-bool-argument-theory-combination-wrong-sat": lambda s, idx: boolarg_combination_wrong_sat(s),
    "non-incremental-second-check-sat": lambda s, idx: nonincr_second_check(s, idx),
    "lookahead-three-assertion-levels": lambda s, idx: lookahead_deep(s, idx),
}
