"""C12 — every clause the SAT engine learns is implied by known clauses (RUP over the guarded trace)."""
import json, os, subprocess
from .. import build, gen, osmt, trace
from ..driver import Result
from . import satcommon

ID = "C12"
VARIANTS = ["fast"]
BUDGET = {"quick": (2400, 110), "thorough": (60000, 1500)}
RULE = ("C01's Hypothesis script generator x engines {default, lookahead, picky, ghost} x :incremental {true,false} "
        "(SatELite :elim/:asymm/:rcheck/:grow) plus random k-SAT over Bool constants and over theory atoms, run with the "
        "guarded DRUP-style trace (I input, T theory, D derived by SatELite resolution/strengthening, L learnt after "
        "minimisation, A final assumption conflict). Oracle: our own reverse-unit-propagation checker (harness/rupcheck.cc): "
        "each D/L/A clause must be derivable by unit propagation from all earlier clauses and the negation of its literals. "
        "Non-trivial = run with >= 1 checked clause of size >= 2; distinct by (options, script).")
ASSUMPTIONS = ["own RUP checker (deletions ignored: sound)", "hooked build"]
RUP = os.path.join(build.ROOT, ".build", "harness", "rupcheck")


def prepare(tier):
    if not os.path.exists(RUP) or os.path.getmtime(RUP) < os.path.getmtime(os.path.join(build.ROOT, "harness", "rupcheck.cc")):
        subprocess.check_call([os.path.join(build.ROOT, "tools", "build_harness.sh")], stdout=subprocess.DEVNULL)


def generate(rnd, tier):
    r = rnd.random()
    if r < 0.15:
        L = gen.LOGICS["PROP"]
        opts, _, _, _ = gen.gen_options(rnd, L, set(), True, None)
        s = gen.gen_ksat(rnd, False, 6, 18, opts)
        return s
    if r < 0.55:
        # hard random clause sets over theory atoms (several bounds per linear term): long implication graphs with
        # theory-propagated literals, many conflicts and minimised learnt clauses
        script, _, _ = gen.gen_script(rnd, tier, planted_p=0.0, queries=False, dense_p=1.0, hard=True, hist_p=0.2,
                                      logic_keys=["QF_LRA", "QF_LIA", "QF_RDL", "QF_IDL", "QF_UF", "QF_UFLRA", "QF_UFLIA", "QF_AX"])
        return script
    script, _, _ = gen.gen_script(rnd, tier, planted_p=0.5, queries=False, dense_p=0.65)
    return script


def check(case, ctx):
    script = case
    r, tr = trace.run_traced(script, "fast", satcommon.opensmt_timeout(script, ctx.tier))
    eng = "default"
    for k, _ in script["options"]:
        if k in satcommon.SLOW_ENGINES:
            eng = k
    classes = ["engine:" + eng, "logic:" + script.get("lk", script["logic"])]
    if gen.opt_get(script, ":incremental") == "false":
        classes.append("satelite")
    text = "\n".join("\t".join(rec) for rec in tr.records if rec[0] in ("I", "T", "D", "L", "A")) + "\n"
    p = subprocess.run([RUP], input=text.encode(), stdout=subprocess.PIPE)
    out = p.stdout.decode().splitlines()
    fails = [l for l in out if l.startswith("FAIL")]
    chk = [l for l in out if l.startswith("CHECKED")]
    nchecked, nnt = (int(chk[0].split()[1]), int(chk[0].split()[2])) if chk else (0, 0)
    for rec in tr.records:
        if rec[0] in ("D", "L", "A"):
            classes.append("rec:" + rec[0])
    nt_key = json.dumps([script["options"], gen.render(script)]) if nnt >= 1 else None
    if fails:
        detail = {"what": "clause-not-rup: " + fails[0].split()[2], "failures": fails[:5], "script": gen.render(script),
                  "trace_excerpt": text[:4000]}
        return Result("violation", nt_key, classes, detail, kind="clause-not-rup")
    return Result("ok", nt_key, classes)


def sample(case, res):
    return gen.render(case)


def _sig_after_sort_error(case, res):
    """a check-sat aborted by the internal error "Equality over non-equal sorts" (mixed Int/Real logic) leaves the SAT
    engine in mid-search state; the next check-sat's SatELite pass turns the leftover assignments into units"""
    r = osmt.run_marked(case, "fast", 10)
    seen_err = False
    for i, c in enumerate(case["cmds"]):
        if c[0] == "check-sat":
            if seen_err:
                return True
            if any("Equality over non-equal sorts" in x for x in (r.resp.get(i) or [])):
                seen_err = True
    return False


SIGNATURES = {"derived-units-after-check-sat-failed-with-sort-error": _sig_after_sort_error}
