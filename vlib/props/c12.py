"""C12 — every clause the SAT engine learns is implied by known clauses (RUP over the guarded trace)."""
import json, os, subprocess
from .. import build, gen, osmt, trace
from ..driver import Result
from . import satcommon

ID = "C12"
VARIANTS = ["fast"]
BUDGET = {"quick": (2400, 110), "thorough": (60000, 1500)}
RULE = ("C01's Hypothesis script generator x engines {default, lookahead, picky, ghost} x :incremental {true,false} "
        "(SatELite :elim/:asymm/:rcheck/:grow) plus random k-SAT over Bool constants and over theory atoms, run with the "
        "guarded DRUP-style trace (I input, T theory, D derived by SatELite resolution/strengthening, L learnt after "
        "minimisation, A final assumption conflict). Oracle: our own reverse-unit-propagation checker (harness/rupcheck.cc): "
        "each D/L/A clause must be derivable by unit propagation from all earlier clauses and the negation of its literals. "
        "Non-trivial = run with >= 1 checked clause of size >= 2; distinct by (options, script).")
ASSUMPTIONS = ["own RUP checker (deletions ignored: sound)", "hooked build"]
RUP = os.path.join(build.ROOT, ".build", "harness", "rupcheck")


def prepare(tier):
    if not os.path.exists(RUP) or os.path.getmtime(RUP) < os.path.getmtime(os.path.join(build.ROOT, "harness", "rupcheck.cc")):
        subprocess.check_call([os.path.join(build.ROOT, "tools", "build_harness.sh")], stdout=subprocess.DEVNULL)


def generate(rnd, tier):
    r = rnd.random()
    if r < 0.25:
        L = gen.LOGICS["PROP"]
        opts, _, _, _ = gen.gen_options(rnd, L, set(), True, None)
        s = gen.gen_ksat(rnd, False, 6, 18, opts)
        return s
    script, _, _ = gen.gen_script(rnd, tier, planted_p=0.5, queries=False)
    return script


def check(case, ctx):
    script = case
    r, tr = trace.run_traced(script, "fast", satcommon.opensmt_timeout(script, ctx.tier))
    eng = "default"
    for k, _ in script["options"]:
        if k in satcommon.SLOW_ENGINES:
            eng = k
    classes = ["engine:" + eng, "logic:" + script.get("lk", script["logic"])]
    if gen.opt_get(script, ":incremental") == "false":
        classes.append("satelite")
    text = "\n".join("\t".join(rec) for rec in tr.records if rec[0] in ("I", "T", "D", "L", "A")) + "\n"
    p = subprocess.run([RUP], input=text.encode(), stdout=subprocess.PIPE)
    out = p.stdout.decode().splitlines()
    fails = [l for l in out if l.startswith("FAIL")]
    chk = [l for l in out if l.startswith("CHECKED")]
    nchecked, nnt = (int(chk[0].split()[1]), int(chk[0].split()[2])) if chk else (0, 0)
    for rec in tr.records:
        if rec[0] in ("D", "L", "A"):
            classes.append("rec:" + rec[0])
    nt_key = json.dumps([script["options"], gen.render(script)]) if nnt >= 1 else None
    if fails:
        detail = {"what": "clause-not-rup: " + fails[0].split()[2], "failures": fails[:5], "script": gen.render(script),
                  "trace_excerpt": text[:4000]}
        return Result("violation", nt_key, classes, detail, kind="clause-not-rup")
    return Result("ok", nt_key, classes)


def sample(case, res):
    return gen.render(case)
