"""C16 — numeric literals are read and printed exactly (API harness + executable round trip)."""
import json
from fractions import Fraction
from .. import gen, osmt, sexpr
from ..driver import Result
from . import hcommon

ID = "C16"
VARIANTS = ["fast", "san"]
BUDGET = {"quick": (2500, 100), "thorough": (40000, 1200)}
RULE = ("(1) API (harness/h_numlit.cc, rapidcheck, ASan/UBSan): strings [-]d*[.d*][/d*[.d*]] with heavy weight on leading/trailing "
        "zeros, zeros after the point, '0', '-0', '000', '.5', '5.', '1/0', plus 30-400 digit literals and junk ('1e5', '--1', '+1', "
        "'', '-'), given to mkConst in QF_LRA, QF_LIA and QF_AUFLIRA instances. Oracle: own exact parser (mpq): a well-formed literal "
        "(by isIntString/isRealString + non-zero denominator) denotes exactly that rational, equals the constant of the canonical "
        "spelling and prints back to the same value; an ill-formed one is rejected or at least does not become a number. "
        "(2) executable (Hypothesis): scripts (assert (= x LIT)) in QF_LRA/QF_LIA with LIT a decimal/numeral/fraction token, "
        "(- LIT), (/ a b) with zeros everywhere, up to 60 digits; get-value / get-model must print exactly the value of LIT "
        "(our own reader of (- n), (/ n d), decimals). Non-trivial = literal with a non-canonical spelling or > 9 digits; "
        "distinct by literal text.")
ASSUMPTIONS = ["own exact literal parser (Fraction / mpq)", "sanitizer build for the API part"]
_H = {}
PREPARE_ON_REPLAY = False


def prepare(tier, seed=1):
    out = hcommon.run_rc_property(ID, "h_numlit", ["rc"], tier, seed, 4000, 60000, nproc=8)
    _H.update(out)


def extra_coverage():
    cov = _H.get("coverage", {})
    return {"add_evaluations": cov.get("evaluations", 0), "add_nontrivial": cov.get("distinct_nontrivial", 0),
            "add_samples": cov.get("samples", [])[:3], "api_harness_classes": cov.get("classes", {})}


def extra_violations():
    return _H.get("violations", [])


def digits(rnd, n, lead0=0.3):
    s = "".join(rnd.choice("0123456789") for _ in range(n))
    return s


def gen_lit(rnd, real):
    """returns (text, exact Fraction)"""
    r = rnd.random()
    if r < 0.5 or not real:
        # numeral (no leading zeros: the lexer would split them) possibly huge
        n = rnd.randint(1, 9) if rnd.random() < 0.5 else rnd.randint(10, 60)
        s = str(rnd.randint(1, 9)) + digits(rnd, n - 1) if rnd.random() < 0.9 else "0"
        v = Fraction(int(s))
        if real and rnd.random() < 0.5:
            frac = digits(rnd, rnd.randint(1, 12))
            if rnd.random() < 0.4:
                frac = "000" + frac
            if rnd.random() < 0.4:
                frac = frac + "000"
            v = v + Fraction(int(frac), 10 ** len(frac))
            s = s + "." + frac
        return s, v
    if r < 0.7:
        # decimal with leading zeros (one token for the lexer) 
        a = "0" * rnd.randint(1, 3) + digits(rnd, rnd.randint(0, 5))
        b = digits(rnd, rnd.randint(1, 8))
        return a + "." + b, Fraction(int(a)) + Fraction(int(b), 10 ** len(b))
    # fraction token n/d (opensmt extension) 
    n = str(rnd.randint(1, 9)) + digits(rnd, rnd.randint(0, 20))
    d = str(rnd.randint(1, 9)) + digits(rnd, rnd.randint(0, 20))
    return n + "/" + d, Fraction(int(n), int(d))


def generate(rnd, tier):
    real = rnd.random() < 0.6
    lit, v = gen_lit(rnd, real)
    form = rnd.random()
    if form < 0.3:
        text, val = "(- %s)" % lit, -v
    elif form < 0.45 and real:
        lit2, v2 = gen_lit(rnd, True)
        if v2 == 0 or "/" in lit2 or "/" in lit:
            text, val = lit, v
        else:
            text, val = "(/ %s %s)" % (lit, lit2), v / v2
    else:
        text, val = lit, v
    return {"real": real, "lit": text, "num": str(val.numerator), "den": str(val.denominator),
            "query": rnd.choice(["get-value", "get-model", "both"])}


def check(case, ctx):
    sort = "Real" if case["real"] else "Int"
    logic = "QF_LRA" if case["real"] else "QF_LIA"
    want = Fraction(int(case["num"]), int(case["den"]))
    script = {"options": [[":produce-models", "true"]], "logic": logic, "decls": ["(declare-fun x () %s)" % sort],
              "cmds": [["assert", "(= x %s)" % case["lit"]], ["check-sat"], ["get-value", ["x"]], ["get-model"]]}
    r = osmt.run_marked(script, "fast", 10)
    classes = ["sort:" + sort]
    canonical = case["lit"] == (str(want) if want.denominator == 1 else None)
    nt_key = case["lit"] if (not canonical or len(case["lit"]) > 9) else None
    if r.out.timeout or r.out.crashed():
        return Result("inconclusive", nt_key, classes + ["crash-or-timeout"])

    def viol(what):
        return Result("violation", nt_key, classes, {"what": what, "literal": case["lit"], "exact": str(want),
                                                      "script": gen.render(script), "stdout": r.out.stdout[-800:]})
    if r.errors():
        if sort == "Int" and want.denominator != 1:
            return Result("ok", None, classes + ["rejected-non-integer"])
        return viol("literal-rejected: %s" % r.errors()[0][1][:80].replace(":", ";"))
    if r.answer(1) != "sat":
        return viol("assertion-with-literal-not-sat: answer %s" % r.answer(1))
    try:
        gv = sexpr.parse_one((r.resp.get(2) or [""])[0])
        got = sexpr.num_value(gv[0][1])
    except Exception as e:
        return viol("unreadable-value: %r" % e)
    if got != want:
        return viol("get-value-differs: printed %s" % sexpr.to_str(gv[0][1]))
    try:
        gm = sexpr.parse_one((r.resp.get(3) or [""])[0])
        gotm = sexpr.num_value(gm[0][4])
    except Exception as e:
        return viol("unreadable-model: %r" % e)
    if gotm != want:
        return viol("get-model-differs: printed %s" % sexpr.to_str(gm[0][4]))
    classes.append("nt" if nt_key else "trivial")
    return Result("ok", nt_key, classes)


SHRINK = "none"


def sample(case, res):
    return case


def _sig_leading_zero(case, res):
    import re
    return bool(re.search(r"(?<![0-9.])0[0-9]+(?![0-9]*\\.)", case["lit"])) and "." not in case["lit"]


SIGNATURES = {"numeral-with-leading-zeros-is-split": _sig_leading_zero}
