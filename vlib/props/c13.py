"""C13 — preprocessing preserves satisfiability and models (guarded trace of roots given to the SAT engine)."""
import json
from .. import gen, osmt, ref, trace, validators as V
from ..driver import Result
from . import satcommon
from .c03 import strip_names

ID = "C13"
VARIANTS = ["fast"]
BUDGET = {"quick": (1500, 120), "thorough": (40000, 1500)}
RULE = ("C01's Hypothesis script generator in both preprocessing modes (whole-frame: no tracking option; per-partition: "
        "proofs/cores/interpolants/assignments), push/pop histories, with emphasis on what the anchored mechanisms consume "
        "(top-level equalities and units, scaled arithmetic equalities, cyclic definitions, equality chains, nested/shared "
        "and/or, term- and Bool-level ite, div/mod of both signs, big distinct, UF+LA purification, read-over-store). "
        "The guarded trace gives every root formula handed to MainSolver::giveToSolver with its frame id. Oracle at every "
        "check-sat (A = our stack model's active assertions, R = conjunction of the roots of the active frames, "
        "solver-introduced symbols free): (1) R /\\ not A unsat; (2) A sat (certified) => R not unsat. "
        "Non-trivial = check whose R differs textually from A and mentions a substitution/ite/div/mod/purify symbol or drops "
        "a variable; distinct by (options, active set).")
ASSUMPTIONS = ["z3 (+cvc5 where it can parse opensmt's numerals)", "hooked build"]


def planted_pre(rnd, L, sig, tg):
    """extra assertion shapes aimed at the preprocessing passes"""
    out = []
    nums = [s for s in ("Int", "Real") if len(sig.vars.get(s, [])) >= 2]
    for _ in range(rnd.randint(1, 3)):
        k = rnd.choice(["subst", "scaled", "cycle", "chain", "ite", "distinct", "shared", "divmod", "divmod"])
        if k == "divmod":
            if len(sig.vars.get("Int", [])) >= 2 and not L["dl"]:
                x, y = rnd.sample(sig.vars["Int"], 2)
                c = rnd.choice([2, 3, 5, -2, -3, 7])
                out.append("(%s %s (div %s %s))" % (rnd.choice(["=", "<=", ">"]), y, x, gen.int_lit(c)))
                out.append("(%s (mod %s %s) %s)" % (rnd.choice(["=", "<", "distinct"]), x, gen.int_lit(c), gen.int_lit(rnd.randint(0, 4))))
            continue
        if k in ("subst", "scaled") and nums and not L["dl"]:
            s = rnd.choice(nums)
            x, y = rnd.sample(sig.vars[s], 2)
            lit = (lambda v: gen.int_lit(v)) if s == "Int" else (lambda v: gen.real_lit(rnd, v))
            if k == "subst":
                out.append("(= %s %s)" % (x, tg.num(s, 2)))
            else:
                out.append("(= (* %s %s) (+ (* %s %s) %s))" % (lit(rnd.choice([2, 3, 4])), x, lit(rnd.choice([2, 3, 5])), y,
                                                                 lit(rnd.randint(-3, 3))))
        elif k == "cycle" and sig.usorts and any(f for f in sig.funs if f[1] == [f[2]] and f[2] in sig.usorts):
            f = rnd.choice([f for f in sig.funs if f[1] == [f[2]] and f[2] in sig.usorts])
            vs = sig.vars[f[2]]
            if len(vs) >= 2:
                x, y = rnd.sample(vs, 2)
                out.append("(= %s (%s %s))" % (x, f[0], y))
                out.append("(= %s (%s %s))" % (y, f[0], x))
        elif k == "chain":
            sorts = [s for s in tg.nonbool_sorts() if len(sig.vars.get(s, [])) >= 3 and not s.startswith("(Array")]
            if sorts and not L["dl"]:
                s = rnd.choice(sorts)
                vs = list(sig.vars[s])
                rnd.shuffle(vs)
                for a, b in zip(vs, vs[1:]):
                    out.append("(= %s %s)" % (a, b))
        elif k == "ite":
            sorts = [s for s in tg.nonbool_sorts() if not s.startswith("(Array")]
            if sorts and not L["dl"]:
                s = rnd.choice(sorts)
                t = "(ite %s (ite %s %s %s) %s)" % (tg.boolean(1), tg.boolean(0), tg.term(s, 1), tg.term(s, 0), tg.term(s, 1))
                out.append("(= %s %s)" % (tg.term(s, 0), t))
            out.append("(ite %s %s %s)" % (tg.boolean(1), tg.boolean(1), tg.boolean(1)))
        elif k == "distinct":
            sorts = [s for s in tg.nonbool_sorts() if len(sig.vars.get(s, [])) >= 3 and not s.startswith("(Array")]
            if sorts and not L["dl"]:
                s = rnd.choice(sorts)
                out.append("(distinct %s)" % " ".join(sig.vars[s]))
        elif k == "shared":
            a, b, c = tg.boolean(1), tg.boolean(1), tg.boolean(0)
            sh = "(and %s %s)" % (a, b)
            out.append("(or (and %s %s) (and %s (or %s %s)))" % (sh, c, sh, c, a))
    return out


def generate(rnd, tier):
    keys = ["QF_LIA", "QF_UFLIA", "QF_ALIA", "QF_AUFLIA", "QF_AUFLIRA", "ALL"] if rnd.random() < 0.3 else None
    script, sig, tg = gen.gen_script(rnd, tier, logic_keys=keys, planted_p=0.6, queries=False, engines=False, hist_p=0.75)
    L = gen.LOGICS[script["lk"]]
    extra = planted_pre(rnd, L, sig, tg)
    cmds = list(script["cmds"])
    lead = 0
    while lead < len(cmds) and cmds[lead][0] == "define-fun":
        lead += 1
    for t in extra:
        pos = rnd.randint(lead, max(lead, len(cmds) - 1))
        cmds.insert(pos, ["assert", t])
    # formulas with auxiliary-symbol definitions (div/mod/ite) that were asserted in a level since popped are asserted
    # again later: the definitions must be given to the SAT engine again
    out = []
    levels = [[]]
    popped = []
    for c in cmds:
        out.append(c)
        if c[0] == "push":
            for _ in range(c[1]):
                levels.append([])
        elif c[0] == "pop":
            for _ in range(min(c[1], len(levels) - 1)):
                popped += [t for t in levels.pop() if "(div " in t or "(mod " in t or "(ite " in t]
            if popped and rnd.random() < 0.6:
                t = rnd.choice(popped)
                out.append(["assert", t])
                levels[-1].append(t)
                if rnd.random() < 0.8:
                    out.append(["check-sat"])
        elif c[0] in ("assert", "assert-named"):
            levels[-1].append(c[1])
    script["cmds"] = out
    return script


def check(case, ctx):
    script = case
    tms = 4000 if ctx.tier == "quick" else 12000
    r, tr = trace.run_traced(script, "fast", satcommon.opensmt_timeout(script, ctx.tier))
    classes = ["logic:" + script.get("lk", script["logic"])]
    if r.out.crashed() or r.out.timeout:
        classes.append("opensmt-crash-or-timeout")
    per_partition = any(k in (":produce-proofs", ":produce-unsat-cores", ":produce-interpolants", ":produce-assignments")
                        and v == "true" for k, v in script["options"])
    classes.append("mode:per-partition" if per_partition else "mode:whole-frame")
    real_only = not any(" Int" in d or "(Int" in d for d in script["decls"]) and \
        script["logic"] not in ("QF_LIA", "QF_IDL", "QF_UFLIA", "QF_UFIDL", "QF_ALIA", "QF_AUFLIA")
    cps = gen.check_points(script)
    # replay the trace
    stack = [0]
    roots = {0: []}
    ci = 0
    nt_key = None
    status = "ok"
    pending_call = False
    for rec in tr.records:
        k = rec[0]
        if k == "PUSH":
            fid = int(rec[1])
            stack.append(fid)
            roots[fid] = []
        elif k == "POP":
            if len(stack) > 1:
                stack.pop()
        elif k == "ROOT":
            roots.setdefault(int(rec[1]), []).append(rec[2])
        elif k == "CHECKCALL":
            if pending_call:
                ci += 1   # the previous call returned without simplifying (frame already unsat)
            pending_call = True
        elif k == "CHECK":
            pending_call = False
            if ci >= len(cps):
                break
            idx, active, _ = cps[ci]
            ci += 1
            A = [strip_names(t) for t in active]
            R = [trace.quote_aux(V.realize(x) if real_only else x) for fid in stack for x in roots.get(fid, [])]
            decls = osmt.ref_decls(script, idx) + tr.aux_decls
            if not A:
                continue
            rtext = " ".join(R)
            changed = sorted(R) != sorted(A)
            aux = any(s in rtext for s in (".ite", ".div", ".mod", ".purify", ".arg", ".frame"))
            fa = "(and true %s)" % " ".join(A)
            fr = "(and true %s)" % " ".join(R)
            ok, why = ref.valid_lenient(decls, "(=> %s %s)" % (fr, fa), tms)
            if ok is False:
                detail = {"what": "root-does-not-imply-assertions", "check_index": ci - 1, "roots": R, "asserted": A,
                          "countermodel": why, "script": gen.render(script)}
                return Result("violation", nt_key, classes, detail)
            if ok is None:
                status = "inconclusive"
                classes.append("ref-unknown-1")
            ra = ref.z3_check(decls, A, tms)
            if ra[0] == "sat":
                rr = ref.z3_check(decls, R, tms)
                if rr[0] == "unsat":
                    cr = ref.cvc5_check(decls, R, tms)
                    if cr[0] != "sat":
                        detail = {"what": "assertions-satisfiable-but-root-unsat", "check_index": ci - 1, "roots": R,
                                  "asserted": A, "model_of_assertions": ra[1], "script": gen.render(script)}
                        return Result("violation", nt_key, classes, detail)
                classes.append("sat-preserved")
            if changed and (aux or len(rtext) != len(" ".join(A))):
                nt_key = json.dumps([script["options"], script["logic"], sorted(A)])
                classes.append("nt" + ("-aux" if aux else ""))
    return Result(status, nt_key, classes)


def sample(case, res):
    return gen.render(case)
