"""C26 — arithmetic conflicts carry valid Farkas certificates (guarded trace)."""
import json
from fractions import Fraction
from .. import gen, osmt, sexpr, trace, linear, validators as V
from ..driver import Result
from . import satcommon

ID = "C26"
VARIANTS = ["fast"]
BUDGET = {"quick": (1200, 110), "thorough": (40000, 1500)}
KEYS = ["QF_LRA", "QF_LIA", "QF_UFLRA", "QF_UFLIA", "QF_LRA", "QF_LIA", "QF_ALIA", "QF_AUFLIRA"]
RULE = ("Hypothesis-generated LRA/LIA/UFLRA/UFLIA (+array/mixed) scripts (interpolation on and off, incremental), run with "
        "the guarded trace: every non-empty LASolver::storeExplanation writes its bounds (atom, polarity) and coefficients. "
        "Oracle in exact Fraction arithmetic: all coefficients > 0; each literal becomes e <= 0 / e < 0 over its linear term "
        "(negated integer atoms tightened by the checker: not(c <= t) => t <= c-1); the weighted sum must cancel every "
        "variable and leave a false constant inequality. Non-trivial = conflict with >= 2 bounds and >= 2 variables, distinct "
        "by text.")
ASSUMPTIONS = ["our own linear-term reader (vlib/linear.py)", "hooked build"]


def generate(rnd, tier):
    tracking = None
    script, _, _ = gen.gen_script(rnd, tier, logic_keys=KEYS, planted_p=0.7, queries=False, tracking=tracking)
    return script


def sorts_of(script, aux):
    m = {}
    for d in list(script["decls"]) + list(aux):
        rk = V.decl_rank(d) if d.startswith("(declare-fun") else None
        if rk:
            m[rk[0].strip("|")] = rk[2]
    return m


def key_sort(key, smap):
    if key.startswith("("):
        try:
            e = sexpr.parse_one(key)
        except Exception:
            return None
        h = e[0]
        if h in ("select",):
            return None
        if h == "ite":
            return key_sort(sexpr.to_str(e[2]), smap) if True else None
        return smap.get(h)
    return smap.get(key)


def check_farkas(items, smap, int_logic, real_logic):
    """items: [(coeff Fraction, polarity '+'|'-', atom text)] -> (ok, why)"""
    tot = {}
    const = Fraction(0)
    strict = False
    for coeff, pol, atom in items:
        if coeff <= 0:
            return False, "non-positive coefficient %s" % coeff
        e = sexpr.parse_one(atom)
        if not isinstance(e, list) or e[0] != "<=" or len(e) != 3:
            return None, "atom is not (<= a b): " + atom
        va, ca = linear.lin(e[1])
        vb, cb = linear.lin(e[2])
        # a <= b  <=>  a - b <= 0
        vs = dict(va)
        for k, x in vb.items():
            vs[k] = vs.get(k, 0) - x
        c = ca - cb
        vs = linear.clean(vs)
        if pol == "-":
            # not (a - b <= 0)  <=>  b - a < 0 ; integers: b - a <= -1  <=> (b - a + 1) <= 0 when all coefficients integral
            vs = {k: -x for k, x in vs.items()}
            c = -c
            sorts = [key_sort(k, smap) for k in vs]
            if real_logic and not int_logic:
                is_int = False
            elif int_logic and not real_logic:
                is_int = True
            else:
                if any(s is None for s in sorts):
                    return None, "cannot determine the sort of an opaque term"
                is_int = all(s == "Int" for s in sorts)
            if is_int and all(x.denominator == 1 for x in vs.values()) and c.denominator == 1:
                c = c + 1
            elif is_int:
                return None, "negated integer atom with non-integral coefficients"
            else:
                strict = True
        for k, x in vs.items():
            tot[k] = tot.get(k, 0) + coeff * x
        const += coeff * c
    tot = linear.clean(tot)
    if tot:
        return False, "variables do not cancel: %s" % {k: str(v) for k, v in list(tot.items())[:4]}
    # sum of (e_i <= 0 or < 0) gives const <= 0 (or < 0): contradiction iff const > 0, or const >= 0 with a strict one
    if const > 0 or (strict and const >= 0):
        return True, None
    return False, "the combination yields the satisfiable constant inequality %s %s 0" % (const, "<" if strict else "<=")


def check(case, ctx):
    script = case
    r, tr = trace.run_traced(script, "fast", satcommon.opensmt_timeout(script, ctx.tier))
    classes = ["logic:" + script.get("lk", script["logic"])]
    smap = sorts_of(script, tr.aux_decls)
    L = gen.LOGICS.get(script.get("lk")) or {}
    int_logic, real_logic = bool(L.get("ints")), bool(L.get("reals"))
    seen = set()
    nt = []
    status = "ok"
    for rec in tr.records:
        if rec[0] != "F":
            continue
        body = rec[1:]
        if len(body) % 3:
            continue
        items = []
        for i in range(0, len(body), 3):
            items.append((sexpr.num_value(sexpr.parse_one(body[i])), body[i + 1], body[i + 2]))
        key = "|".join(sorted("%s %s %s" % it for it in items))
        if key in seen:
            continue
        seen.add(key)
        try:
            ok, why = check_farkas(items, smap, int_logic, real_logic)
        except Exception as e:  # unreadable term: not a verdict
            ok, why = None, "reader: %r" % e
        nvars = set()
        for _, _, a in items:
            for x in sexpr.atoms(sexpr.parse_one(a)):
                if not sexpr.is_num(x) and x not in ("<=", "+", "*", "-", "/"):
                    nvars.add(x)
        if len(items) >= 2 and len(nvars) >= 2:
            nt.append(key)
        classes.append("size:%d" % min(len(items), 6))
        if ok is None:
            status = "inconclusive"
            classes.append("unreadable:" + str(why)[:40])
        elif ok is False:
            detail = {"what": "farkas-certificate-invalid: %s" % why, "bounds": [[str(a), b, c] for a, b, c in items],
                      "script": gen.render(script)}
            return Result("violation", json.dumps(nt) if nt else None, classes, detail, kind="farkas-certificate-invalid")
    res = Result(status, json.dumps(sorted(nt)) if nt else None, classes)
    res.nt_keys = nt
    return res


def sample(case, res):
    return {"script": gen.render(case), "conflicts": getattr(res, "nt_keys", [])[:3]}
