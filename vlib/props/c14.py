"""C14 — term constructors return equivalent terms (in-process rapidcheck harness, libz3 as semantic oracle)."""
from . import hcommon

ID = "C14"
VARIANTS = ["san"]
RULE = ("harness/h_mkterm.cc (mode mk) against libopensmt (ASan+UBSan): a rapidcheck-drawn entropy vector drives a deterministic "
        "builder over a QF_AUFLIRA logic instance (3 variables each of Bool, Int, Real, U, (Array Int Int); f:U->U, g:Int->Int, "
        "p:UxInt->Bool); arguments are built bottom-up to depth <= 3 by the same constructors (so they are normal forms), with "
        "constants from a boundary pool (0,1,2,3, 2^31+-1, 2^32, 2^53(+1), 2^63(-1), 2^64, a 30-digit number, and rationals over "
        "them) and repeated / complementary arguments (a,a; a,not a; t,-t) at weight 0.3. One case = one outermost call of mkAnd, "
        "mkOr, mkNot, mkXor, mkImpl, mkIte, mkEq, mkDistinct(n), mkPlus(n), mkMinus, mkNeg, mkTimes, mkRealDiv, mkIntDiv, mkMod, "
        "mkLeq/Lt/Geq/Gt (binary and chained), mkSelect, mkStore, uninterpreted applications. Oracle: libz3 proves "
        "(distinct (op printed-args) printed-result) unsat; a constructor that throws is a clean rejection. "
        "Non-trivial = result text differs from (op args), i.e. some normalisation happened; counted per case.")
ASSUMPTIONS = ["libz3 4.8 decides the equivalence queries (QF_AUFLIRA, tiny terms)", "printing of terms is trusted here (C17 checks it)"]


def custom_run(tier, seed):
    return hcommon.run_rc_property(ID, "h_mkterm", ["mk"], tier, seed, 5000, 150000)


def custom_replay(path):
    return hcommon.replay("h_mkterm", path)
