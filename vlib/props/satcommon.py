"""Shared oracle for C01 / C02: every definitive check-sat answer against the certified references."""
import json
from .. import gen, osmt, ref
from ..driver import Result

SLOW_ENGINES = (":pure-lookahead", ":picky", ":ghost-vars")


def opensmt_timeout(script, tier):
    if any(k in SLOW_ENGINES for k, _ in script["options"]):
        return 3.0
    return 10.0 if tier == "quick" else 20.0


def atoms_count(terms):
    from ..sexpr import parse_one, ParseError
    seen = set()
    THEORY = {"<=", "<", ">=", ">", "=", "distinct", "select"}

    def walk(e):
        if isinstance(e, str):
            if e not in ("true", "false"):
                seen.add(e)
            return
        if e and isinstance(e[0], str) and e[0] in ("and", "or", "not", "=>", "xor", "ite"):
            for x in e[1:]:
                walk(x)
        elif e and e[0] == "let":
            for b in e[1]:
                walk(b[1])
            walk(e[2])
        else:
            from ..sexpr import to_str
            seen.add(to_str(e))
    for t in terms:
        try:
            walk(parse_one(t))
        except Exception:
            seen.add(t)
    return len(seen)


def check_answers(script, ctx, want, variant="fast", sample_san=0.0):
    """want: 'unsat' (C01: examine unsat answers) or 'sat' (C02)."""
    tier = ctx.tier
    r = osmt.run_marked(script, variant, opensmt_timeout(script, tier))
    classes = ["logic:" + script.get("lk", script["logic"])]
    eng = "default"
    for k, _ in script["options"]:
        if k in SLOW_ENGINES:
            eng = k
    classes.append("engine:" + eng)
    if r.out.timeout:
        return Result("inconclusive", None, classes + ["opensmt-timeout"])
    if r.out.crashed():
        # crashes are C18's business; here they are inconclusive
        return Result("inconclusive", None, classes + ["opensmt-crash"])
    if r.errors():
        classes.append("script-error")
    cps = gen.check_points(script)
    nt_key = None
    tms = 5000 if tier == "quick" else 20000
    status = "ok"
    detail = None
    for ci, (idx, active, _names) in enumerate(cps):
        ans = r.answer(idx)
        classes.append("answer:" + str(ans))
        if ans != want:
            continue
        decls = osmt.ref_decls(script, idx)
        key = json.dumps([script["options"], script["logic"], sorted(active)])
        cache = ctx.cache.setdefault("ref", {})
        rr = ref.decide(decls, active, tms)
        classes.append("ref:" + rr[0])
        if rr[0] == "unknown":
            classes.append("ref-unknown")
            status = "inconclusive" if status == "ok" else status
            continue
        if atoms_count(active) >= 2:
            nt_key = key
            if ci > 0:
                classes.append("nt-incremental")
        if rr[0] != want:
            detail = {"check_index": ci, "cmd_index": idx, "opensmt": ans, "reference": rr[0],
                      "witness_model": rr[1], "active": active, "script": gen.render(script)}
            return Result("violation", nt_key, classes, detail)
    return Result(status, nt_key, classes)
