"""C22 — theory solver verdicts depend only on the asserted literals (arm A: monitor inside real search)."""
import json
from .. import gen, osmt, ref, trace, validators as V
from ..driver import Result
from . import satcommon, sigs

ID = "C22"
BUDGET = {"quick": (1000, 110), "thorough": (30000, 1500)}
INTFREE = [k for k in gen.ALL_LOGIC_KEYS if not gen.LOGICS[k]["ints"]]
RULE = ("Arm A (monitor inside real search): C01's Hypothesis scripts x engines x :random-seed, :random-var-freq, :rnd-pol, "
        ":restart-first {1,2,100} (many assert/backtrack interleavings), random clauses over theory-atom pools; the guarded "
        "trace records every literal pushed to the theory solvers (TS+), every backtrack (TS-) and every check (TC). The "
        "Python side replays the literal stack. Oracle: whenever a solver reports an inconsistency (assertLit fails or a check "
        "returns UNSAT) the current literal set must be theory-unsat (z3, cvc5 not contradicting); whenever a complete check "
        "returns SAT with no pending split clause in a logic without integers the current set must be certified sat (Boolean arguments of uninterpreted functions are opaque there: values of a fresh sort, tied to true/false only through their own asserted literal). Up to "
        "40 verdicts per run. Non-trivial = verdict issued after >= 1 backtrack on a literal set different from every earlier "
        "examined set of the run; distinct by literal set.")
RULE += (" Arm B (harness/h_theory.cc, rapidcheck, ASan/UBSan library): LASolver (LRA), Egraph (EUF), IDLSolver and RDLSolver "
         "and Egraph+ArraySolver (QF_AX, scheduled as ArrayTHandler does) driven directly with the protocol of THandler/CoreSMTSolver: an atom pool over shared linear terms / a shared term "
         "pool (equalities, predicates, n-ary distinct), one backtrack point per literal, literals grouped in decision "
         "levels, backtracking to level boundaries only and by at least one level after every conflict, deductions drained "
         "after each successful check, verified and asserted back; atoms are declared up front (for LASolver also in the middle "
         "of a history, as LIA splits do). Oracle (libz3 on the currently asserted literals): a conflict from assertLit/check "
         "only on an unsatisfiable set, with an explanation made of currently asserted literals that is itself unsatisfiable; "
         "a complete check that answers SAT only on a satisfiable set (not judged for arrays, whose extensionality witnesses come from "
         "the front end); every deduction implied by the set; lemma clauses handed out by the array solver make their atoms "
         "assertable and are never fully falsified. Non-trivial (arm B) "
         "= history with a verdict issued after >= 1 backtrack.")
VARIANTS = ["fast", "san"]
ASSUMPTIONS = ["z3 (+cvc5 where it can parse opensmt's numerals)", "hooked build", "integer logics: only UNSAT verdicts examined",
               "arm B: the call protocol of THandler is the input domain (sequences no caller produces, e.g. declaring a "
               "difference-logic atom while literals are asserted, are outside it)"]


# ---- arm B: the theory solvers driven directly (harness/h_theory.cc), run once per campaign before the script workers ----
_H = {}
PREPARE_ON_REPLAY = False


def prepare(tier, seed=1):
    import glob, os
    from . import hcommon
    from .. import build, harness
    out = hcommon.run_rc_property(ID, "h_theory", ["lra", "euf", "idl", "rdl", "ax", "lra", "ax", "lra", "euf", "ax", "lra", "idl", "rdl", "ax", "euf", "lra"], tier, seed, 1500, 40000, nproc=16, noshrink=True)
    # saved histories (regressions of repaired defects) are replayed on every run
    for f in sorted(glob.glob(os.path.join(build.ROOT, "replays", ID, "*.txt"))):
        r = harness.run_one("h_theory", ["replay", f])
        out["coverage"]["evaluations"] = out["coverage"].get("evaluations", 0) + 1
        if r["rc"] != 0 or r["ub"] or r["asan"]:
            out["violations"].append(os.path.relpath(f, build.ROOT))
    _H.update(out)


def extra_coverage():
    cov = _H.get("coverage", {})
    return {"add_evaluations": cov.get("evaluations", 0), "add_nontrivial": cov.get("distinct_nontrivial", 0),
            "add_samples": cov.get("samples", [])[:2], "arm_b_direct_harness_classes": cov.get("classes", {})}


def extra_violations():
    return _H.get("violations", [])


def custom_replay(path):
    if path.endswith(".txt"):
        from . import hcommon
        return hcommon.replay("h_theory", path)
    from ..driver import Ctx
    data = json.load(open(path))
    res = check(data["case"] if "case" in data else data, Ctx("quick", 1))
    return res.status != "violation", "status=%s detail=%s" % (res.status, json.dumps(res.detail, default=str)[:2000])


def generate(rnd, tier):
    if rnd.random() < 0.5:
        # hard clause sets over theory atoms with several bounds per term: many assert/backtrack interleavings per run
        script, _, _ = gen.gen_script(rnd, tier, planted_p=0.0, queries=False, tracking=set(), dense_p=1.0, hard=True, hist_p=0.3,
                                      big=False, logic_keys=["QF_LRA", "QF_RDL", "QF_IDL", "QF_UF", "QF_UFLRA", "QF_AX", "QF_ALRA",
                                                             "QF_LIA", "QF_UFRDL"])
    else:
        script, _, _ = gen.gen_script(rnd, tier, planted_p=0.5, queries=False, tracking=set(), dense_p=0.6)
    for k, vals in ((":restart-first", ["1", "2", "100"]), (":random-var-freq", ["0", "0.02", "0.5"]),
                    (":rnd-pol", ["true", "false"])):
        if rnd.random() < 0.4 and not any(o[0] == k for o in script["options"]):
            script["options"].append([k, rnd.choice(vals)])
    return script


def abstract_boolargs(decls, lits):
    """A theory solver sees a Boolean term that is an argument of an uninterpreted function only through the literal the
    SAT engine asserts for it; neither the Boolean structure of such a term nor the fact that it can only be true or
    false is the theory solver's business (the SAT engine assigns every such term before the final check; the lookahead
    engines also ask on partial assignments). Bool parameters of uninterpreted functions become parameters of a fresh
    sort with two distinct constants for true and false; every other Bool argument becomes a fresh constant of that
    sort, tied to true/false only where the argument itself (or its negation) is among the asserted literals.
    Returns (literals, declarations)."""
    from .. import sexpr
    bpos = {}
    new_decls = []
    for d in decls:
        rk = V.decl_rank(d) if d.startswith("(declare-fun") else None
        if rk and "Bool" in rk[1]:
            bpos[rk[0]] = [i for i, x in enumerate(rk[1]) if x == "Bool"]
            new_decls.append("(declare-fun %s (%s) %s)" % (rk[0], " ".join("|.BA|" if x == "Bool" else x for x in rk[1]), rk[2]))
        else:
            new_decls.append(d)
    if not bpos:
        return lits, decls
    names = {}

    def walk(e):
        if isinstance(e, str):
            return e
        out = [walk(x) for x in e]
        if isinstance(e[0], str) and e[0] in bpos:
            for i in bpos[e[0]]:
                if i + 1 < len(e):
                    if e[i + 1] == "true":
                        out[i + 1] = "|.bt|"
                    elif e[i + 1] == "false":
                        out[i + 1] = "|.bf|"
                    else:
                        t = sexpr.to_str(e[i + 1])
                        out[i + 1] = names.setdefault(t, "|.ba%d|" % len(names))
        return out
    try:
        new = [sexpr.to_str(walk(sexpr.parse_one(l))) for l in lits]
    except Exception:
        return lits, decls
    cur = set(lits)
    new.append("(distinct |.bt| |.bf|)")
    for t, b in names.items():
        if t in cur:
            new.append("(= %s |.bt|)" % b)
        if "(not %s)" % t in cur:
            new.append("(= %s |.bf|)" % b)
    pre = ["(declare-sort |.BA| 0)", "(declare-fun |.bt| () |.BA|)", "(declare-fun |.bf| () |.BA|)"]
    pre += ["(declare-fun %s () |.BA|)" % b for b in names.values()]
    return new, pre + new_decls


def check(case, ctx):
    script = case
    tms = 3000 if ctx.tier == "quick" else 10000
    r, tr = trace.run_traced(script, "fast", satcommon.opensmt_timeout(script, ctx.tier))
    L = gen.LOGICS.get(script.get("lk")) or {}
    classes = ["logic:" + script.get("lk", script["logic"])]
    real_only = not any(" Int" in d or "(Int" in d for d in script["decls"]) and \
        script["logic"] not in ("QF_LIA", "QF_IDL", "QF_UFLIA", "QF_UFIDL", "QF_ALIA", "QF_AUFLIA")
    decls = list(script["decls"]) + tr.aux_decls
    stack = []
    backtracks = 0
    examined = set()
    nts = []
    status = "ok"
    n = 0
    recs = tr.records

    def lit_text(pol, atom):
        a = trace.quote_aux(V.realize(atom) if real_only else atom)
        return a if pol == "+" else "(not %s)" % a

    def judge(kind, expect, i):
        nonlocal status, n
        key = kind + "|" + "|".join(sorted(stack))
        if key in examined or n >= 16:
            return None
        examined.add(key)
        n += 1
        cur = sorted(set(stack))
        decls0 = decls
        if expect == "sat":
            # a reported inconsistency is judged on the literals as they are; a reported consistency on what the solver can see
            cur, decls0 = abstract_boolargs(decls, cur)
            if decls0 is not decls:
                classes.append("bool-arguments-abstracted")
        if expect == "unsat":
            zr, zd = ref.z3_check(decls, cur, tms)
            if zr == "sat":
                cr, _ = ref.cvc5_check(decls, cur, tms)
                if cr != "unsat":
                    return {"what": "inconsistency-reported-for-satisfiable-literal-set", "literals": cur,
                            "verdict_record": recs[i], "model": zd, "script": gen.render(script)}
            elif zr != "unsat":
                status = "inconclusive"
        else:
            zr, zd = ref.z3_check(decls0, cur, tms)
            if zr == "unsat":
                cr, _ = ref.cvc5_check(decls0, cur, tms)
                if cr != "sat":
                    return {"what": "complete-check-consistent-for-unsatisfiable-literal-set", "literals": cur,
                            "verdict_record": recs[i], "script": gen.render(script)}
            elif zr != "sat":
                status = "inconclusive"
        classes.append("verdict:" + kind)
        if backtracks >= 1:
            nts.append(key)
        return None

    for i, rec in enumerate(recs):
        k = rec[0]
        if k == "TS+":
            stack.append(lit_text(rec[1], rec[3]))
            if rec[2] == "confl":
                d = judge("assert-conflict", "unsat", i)
                if d:
                    return Result("violation", json.dumps(nts) if nts else None, classes, d)
        elif k == "TS-":
            m = int(rec[1])
            del stack[len(stack) - m:]
            backtracks += 1
        elif k == "TC":
            if rec[2] == "UNSAT":
                d = judge("check-unsat", "unsat", i)
                if d:
                    return Result("violation", json.dumps(nts) if nts else None, classes, d)
            elif rec[2] == "SAT" and rec[1] == "1" and not L.get("ints"):
                # pending split clauses follow directly as T split records
                j = i + 1
                split = j < len(recs) and recs[j][0] == "T" and recs[j][1] == "split"
                if split:
                    classes.append("complete-sat-with-splits")
                    continue
                d = judge("complete-sat", "sat", i)
                if d:
                    return Result("violation", json.dumps(nts) if nts else None, classes, d)
    return Result(status, json.dumps(sorted(nts)) if nts else None, classes)


def _sig_boolarg(case, res):
    d = res.detail or {}
    return str(d.get("what", "")).startswith("complete-check-consistent") and sigs.boolarg_combination_wrong_sat(case)


def _sig_la_arrays(case, res):
    d = res.detail or {}
    L = gen.LOGICS.get(case.get("lk")) or {}
    lits = " ".join(d.get("literals") or [])
    return str(d.get("what", "")).startswith("complete-check-consistent") and sigs.is_lookahead(case) and \
        bool(L.get("arrays")) and "(select (store " in lits


SIGNATURES = {"uf-bool-argument-theory-combination-wrong-sat": _sig_boolarg,
              "lookahead-array-axiom-instances-ignored": _sig_la_arrays}


def sample(case, res):
    return gen.render(case)
