"""C27 — integer rounding is exact (in-process harness: exhaustive boundary constants + rapidcheck + libz3)."""
from . import hcommon

ID = "C27"
VARIANTS = ["san"]
RULE = ("harness/h_mkterm.cc against libopensmt (ASan+UBSan): (a) mode consts: mkIntDiv/mkMod constant folding on all ordered pairs "
        "(n, d), d != 0, from a 60-value boundary pool (+-{0..3, 2^31-1..2^31+1, 2^32-1, 2^32, 2^53, 2^53+1, 2^63-1, 2^63, 2^64, "
        "30-digit} and shifted copies) against the Euclidean definition n = d*q + r, 0 <= r < |d| on mpz (exhaustive over the "
        "pool); Converter<SafeInt>::negate(c) = -c-1 on the int64 part of the pool; (b)+(c) mode round (rapidcheck): mkLeq/Lt/Geq/"
        "Gt/Eq/Distinct on integer terms with big and negative coefficients and constants, div/mod by constants of both signs, "
        "checked for equivalence with the SMT-LIB reading by libz3; and DivModRewriter on generated formulas: the rewritten "
        "formula must imply the original (auxiliary symbols free) and must hold when the auxiliaries are the true quotient and "
        "remainder. Non-trivial = negative divisor, operand beyond 2^31, or a case in which div/mod elimination fired / the "
        "constructor normalised; counted per case.")
ASSUMPTIONS = ["libz3 for Int semantics of div/mod and relations", "mpz for the Euclidean reference"]


def custom_run(tier, seed):
    return hcommon.run_rc_property(ID, "h_mkterm", ["round"], tier, seed, 2500, 80000, extra_jobs=[["consts"]],
                                   note="part (a) enumerates its boundary pool completely; the rest is sampled")


def custom_replay(path):
    return hcommon.replay("h_mkterm", path)
