"""Shared runner for rapidcheck harness properties (one process per seed, optional extra exhaustive jobs)."""
import os
from .. import build, harness


def run_rc_property(pid, hname, modes, tier, seed, per_quick, per_thorough, nproc=16, extra_jobs=(), known_excl=(), max_size=100,
                    exhaustive=False, note=None, noshrink=False):
    os.environ["VERIF_TIER_RUN"] = tier
    harness.ensure([hname])
    known = {e["id"]: e for e in harness.known_excludes(pid)}
    excl = ",".join(k for k in known if k in known_excl)
    per = per_quick if tier == "quick" else per_thorough
    jobs = [dict(name=hname, args=list(a), exclude=excl) for a in extra_jobs]
    for w in range(nproc):
        mode = modes[w % len(modes)]
        jobs.append(dict(name=hname, args=[mode], exclude=excl,
                         rc_params="seed=%d max_success=%d max_size=%d%s" % (seed * 1000 + w + 1, per, max_size, " noshrink=1" if noshrink else "")))
    res = harness.run_many(jobs)
    ev, nt, classes, samples = harness.merge_stats(res)
    violations = []
    for r in res:
        bad = (r["rc"] != 0) or r["ub"] or r["asan"]
        if r["timeout"]:
            classes["timeout"] = classes.get("timeout", 0) + 1
            continue
        if not bad:
            continue
        text = r["fail"] or ("no saved case\n" + r["stdout"][-1500:] + "\n" + r["stderr"][-1500:])
        violations.append(harness.save_fail(pid, hname, text, {"args": r["args"], "rc_params": r["rc_params"], "rc": r["rc"],
                                                              "ub": r["ub"], "stdout": r["stdout"][-2500:],
                                                              "stderr": r["stderr"][-1500:]}))
    known_lines = []
    for kid, e in known.items():
        rp = os.path.join(build.ROOT, e.get("replay", ""))
        if e.get("replay") and os.path.exists(rp):
            r = harness.run_one(hname, ["replay", rp])
            if r["rc"] != 0 or r["ub"] or r["asan"]:
                known_lines.append("KNOWN-FINDING: property=%s %s" % (pid, e["what"]))
    cov = {"evaluations": ev, "distinct_nontrivial": nt, "samples": samples, "classes": classes,
           "excluded_known": sum(v for k, v in classes.items() if k.startswith("excluded:")), "processes": len(jobs)}
    if exhaustive:
        cov["exhaustive"] = True
    if note:
        cov["note"] = note
    return {"coverage": cov, "violations": sorted(set(violations))[:5], "known_lines": known_lines}


def replay(hname, path):
    harness.ensure([hname])
    r = harness.run_one(hname, ["replay", path if os.path.isabs(path) else os.path.join(build.ROOT, path)])
    ok = r["rc"] == 0 and not r["ub"] and not r["asan"]
    return ok, (r["stdout"][-600:] + r["stderr"][-600:]).strip()
