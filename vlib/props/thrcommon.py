"""C24 / C25: the threads harness under ThreadSanitizer and under ASan/UBSan."""
import os
from .. import build, harness


def run(pid, mode, tier, seed, per_quick, per_thorough):
    os.environ["VERIF_TIER_RUN"] = tier
    harness.ensure(["h_threads"], tsan=True)
    per = per_quick if tier == "quick" else per_thorough
    jobs = []
    # the harness is multi-threaded itself; 6 TSan + 3 ASan processes keep the machine busy without starving the threads
    modes = mode if isinstance(mode, (list, tuple)) else [mode]
    for w in range(6):
        jobs.append(dict(name="h_threads_tsan", args=[modes[w % len(modes)]], rc_params="seed=%d max_success=%d" % (seed * 1000 + w + 1, per)))
    for w in range(3 if len(modes) == 1 else 4):
        jobs.append(dict(name="h_threads", args=[modes[w % len(modes)]], rc_params="seed=%d max_success=%d" % (seed * 1000 + 50 + w, per)))
    res = harness.run_many(jobs, workers=10)
    ev, nt, classes, samples = harness.merge_stats(res)
    violations = []
    for r in res:
        if r["timeout"]:
            classes["timeout"] = classes.get("timeout", 0) + 1
            continue
        bad = r["rc"] != 0 or r["races"] or r["asan"] or r["ub"]
        classes["runs:" + r["name"]] = classes.get("runs:" + r["name"], 0) + 1
        if not bad:
            continue
        text = r["fail"] or ("%s %s\n" % (r["args"][0], " ".join(r["races"][:3])))
        violations.append(harness.save_fail(pid, r["name"], text, {"args": r["args"], "rc_params": r["rc_params"], "rc": r["rc"],
                                                                   "races": r["races"][:5], "ub": r["ub"], "asan": r["asan"],
                                                                   "stdout": r["stdout"][-1500:], "stderr": r["stderr"][-2500:]}))
    cov = {"evaluations": ev, "distinct_nontrivial": nt, "samples": samples, "classes": classes, "processes": len(jobs),
           "note": "interleavings are sampled, not enumerated; ThreadSanitizer reports a race whenever two unsynchronised accesses "
                   "occur in a sampled execution, independent of timing"}
    return {"coverage": cov, "violations": sorted(set(violations))[:5], "known_lines": []}


def replay(path):
    harness.ensure(["h_threads"], tsan=True)
    p = path if os.path.isabs(path) else os.path.join(build.ROOT, path)
    ok = True
    msg = ""
    for name in ("h_threads_tsan", "h_threads"):
        r = harness.run_one(name, ["replay", p])
        if r["rc"] != 0 or r["races"] or r["asan"]:
            ok = False
        msg += "%s: rc=%s races=%d %s\n" % (name, r["rc"], len(r["races"]), r["stdout"][-200:].strip())
    return ok, msg
