"""C17 — printed SMT-LIB reads back to the same object."""
import json, os, re, tempfile
from .. import gen, osmt, ref, run, sexpr, validators as V
from ..driver import Result
from . import c03, satcommon

ID = "C17"
VARIANTS = ["fast"]
BUDGET = {"quick": (1300, 110), "thorough": (30000, 1500)}
KEYS = ["QF_UF", "QF_LRA", "QF_LIA", "QF_UFLRA", "QF_UFLIA", "PROP"]
RULE = ("Hypothesis-generated scripts (QF_UF, QF_LRA, QF_LIA, QF_UFLRA, QF_UFLIA) whose user symbols and sorts are renamed from a "
        "name-torture pool: quoted symbols with spaces, parentheses, semicolons and double quotes; SMT-LIB reserved words as quoted "
        "names (|let|, |par|, |assert|, |push|, |exit|; not |as|, |_|, |!|, which z3 itself refuses as declared names); names starting with digits; names that clash with the formal "
        "parameters of printed models (x0, x1, x!0, y!1); sort names that need quoting. Outputs collected: get-model, get-value, "
        "full unsat cores, interpolants, :dump-query files. Oracle (round trip): every output must be read by z3 (and cvc5) under the "
        "user's declarations (abstract values (as @k U) pre-declared as distinct constants) and denote the same object: the model "
        "makes the assertions true; each get-value pair (t v) satisfies t = our term and t = v in that model; each core / interpolant "
        "formula is z3-equivalent to the term our own reader builds from it with the declared ranks; a dumped query re-run by a fresh "
        "opensmt gives the same answer and its assertions are z3-equivalent to the active assertions. Non-trivial = script with >= 1 "
        "symbol that needs quoting or clashes with a reserved word and >= 1 printed output that mentions it; distinct by text.")
ASSUMPTIONS = ["z3 python (from_string) and cvc5 as 'another SMT-LIB tool'", "theory symbols (and, +, true, Int) are not used as user names: SMT-LIB forbids redeclaring them"]

POOL = ["|a b|", "|x(y|", "|p)q|", "|semi;colon|", "|say \"hi\"|", "|let|", "|par|", "|assert|", "|push|", "|exit|",
        "|1abc|", "|007|", "x0", "x1", "|x!0|", "|y!1|", "|x!1|", "|a|", "|#hash|", "|dot.ted|", "|new\nline|", "|tab\tbed|", "|:kw|", "|(|", "|)|"]
SORTPOOL = ["|my sort|", "|S(1)|", "|let|", "|2U|", "U_plain"]


def rename(rnd, script):
    """token-level renaming of declared symbols / sorts of a generated script"""
    names = []
    for d in script["decls"]:
        e = sexpr.parse_one(d)
        names.append((e[0], e[1]))
    pool = list(POOL)
    rnd.shuffle(pool)
    spool = list(SORTPOOL)
    rnd.shuffle(spool)
    mp = {}
    for kind, n in names:
        if kind == "declare-sort":
            if spool and rnd.random() < 0.7:
                mp[n] = spool.pop()
        elif pool and rnd.random() < 0.6:
            mp[n] = pool.pop()
    if not mp:
        return script, mp

    def sub(text):
        return re.sub(r"(?<![\w|!.@$-])([A-Za-z_][\w]*)(?![\w|!.@$-])", lambda m: mp.get(m.group(1), m.group(1)), text)
    s = copy_script(script)
    s["decls"] = [sub(d) for d in s["decls"]]
    for c in s["cmds"]:
        for i in range(1, len(c)):
            if isinstance(c[i], str) and not (c[0] == "assert-named" and i == 2) and not (c[0] == "define-fun" and i == 1):
                c[i] = sub(c[i])
            elif isinstance(c[i], list):
                c[i] = [sub(x) if isinstance(x, str) else x for x in c[i]]
    return s, mp


def copy_script(s):
    return json.loads(json.dumps(s))


def generate(rnd, tier):
    flavor = rnd.choice(["models", "models", "dump", "cores", "interpolants"])
    if flavor in ("models", "dump"):
        H = c03.generate(rnd, tier)
        if H["lk"] not in KEYS:
            H, _, _ = gen.gen_script(rnd, tier, logic_keys=KEYS, tracking={"models"}, queries=True, engines=False)
    elif flavor == "cores":
        H, _, _ = gen.gen_script(rnd, tier, logic_keys=KEYS, tracking={"cores"}, named=0.5, queries=True, engines=False, planted_p=0.8)
        H["options"].append([":print-cores-full", "true"])
    else:
        H, _, _ = gen.gen_script(rnd, tier, logic_keys=["QF_UF", "QF_LRA", "QF_LIA", "PROP"], tracking={"interpolants"}, named=1.0, queries=True,
                                 engines=False, planted_p=0.8, allow_nonincr=False)
    H["options"] = [o for o in H["options"] if o[0] not in (":pure-lookahead", ":picky", ":ghost-vars", ":incremental")]
    H, mp = rename(rnd, H)
    return {"flavor": flavor, "script": H, "renamed": mp}


def z3_reads(decls, assertion_texts, tms=3000):
    """z3 first; z3 refuses some legal quoted reserved words as declared names or in head position (|let|, |as|, |!|), so an
    output counts as unreadable only if cvc5 cannot read it either"""
    zr, zd = ref.z3_check(decls, assertion_texts, tms, want_model=False)
    if zr == "error":
        cr, cd = ref.cvc5_check(decls, assertion_texts, tms)
        if cr != "error":
            return cr, cd
    return zr, zd


def check(case, ctx):
    script = case["script"]
    flavor = case["flavor"]
    tms = 4000
    classes = ["flavor:" + flavor]
    dump_dir = None
    s = copy_script(script)
    if flavor == "dump":
        dump_dir = tempfile.mkdtemp(dir=run.WORK)
        s["options"] = s["options"] + [[":dump-query", "true"], [":dump-query-name", '"%s/dq"' % dump_dir]]
    try:
        r = osmt.run_marked(s, "fast", 10)
        return _judge(case, s, r, ctx, classes, dump_dir, tms)
    finally:
        if dump_dir:
            for f in os.listdir(dump_dir):
                os.unlink(os.path.join(dump_dir, f))
            os.rmdir(dump_dir)


def _judge(case, script, r, ctx, classes, dump_dir, tms):
    flavor = case["flavor"]
    if r.out.timeout or r.out.crashed():
        return Result("inconclusive", None, classes + ["crash-or-timeout"])
    renamed = set(case["renamed"].values())
    text = gen.render(script)
    real_only = not any(" Int" in d or "(Int" in d for d in script["decls"]) and script["logic"] not in ("QF_LIA", "QF_UFLIA")
    nt = [False]

    def mentions(out):
        return any(n in out for n in renamed)

    def viol(what, idx, extra=None):
        d = {"what": what, "cmd_index": idx, "script": text, "response": (r.resp.get(idx) or [])[:2], "renamed": case["renamed"]}
        if extra:
            d.update(extra)
        return Result("violation", text if (renamed and nt[0]) else None, classes, d)
    state = None
    prelude = None
    model_text = None
    check_no = 0
    for idx, c, active in gen.stack_walk(script):
        k = c[0]
        if k in ("assert", "assert-named", "push", "pop"):
            state = None
        if k == "check-sat":
            state = r.answer(idx)
            check_no += 1
            prelude = None
            act = [c03.strip_names(t) for t, _ in active]
            decls = osmt.ref_decls(script, idx)
            if flavor == "dump" and dump_dir and state in ("sat", "unsat"):
                p = os.path.join(dump_dir, "dq-%d.smt2" % check_no)
                if not os.path.exists(p):
                    classes.append("dump-file-not-found")   # numbering of dump files is not part of the property
                    continue
                dumped = open(p, errors="replace").read()
                if mentions(dumped):
                    nt[0] = True
                o2 = run.run_text(dumped, "fast", 10)
                ans2 = [l for l in o2.stdout.split("\n") if l in ("sat", "unsat", "unknown")]
                if "(error" in o2.stdout or not ans2:
                    return viol("dump-not-readable-by-opensmt", idx, {"dumped": dumped[:1500], "rerun_stdout": o2.stdout[:400]})
                if ans2[-1] != state:
                    return viol("dump-gives-different-answer: %s vs %s" % (ans2[-1], state), idx, {"dumped": dumped[:1500]})
                # z3 reads the dump: its assertions (last level = all, since the dump replays pushes) are equivalent to ours
                body = re.sub(r"\(check-sat\)|\(exit\)|\(push 1\)|\(set-logic [^)]*\)", "", dumped)
                zr, zd = ref.z3_check([V.realize(body) if real_only else body], ["(not (and true %s))" % " ".join(act)], tms, want_model=False)
                if zr == "error":
                    return viol("dump-not-readable-by-z3: " + str(zd)[:100].replace(":", ";"), idx, {"dumped": dumped[:1500]})
                if zr == "sat":
                    return viol("dump-denotes-something-else", idx, {"dumped": dumped[:1500]})
                classes.append("dump-ok")
            continue
        if k == "get-model" and state == "sat":
            resp = r.resp.get(idx) or []
            if len(resp) != 1 or resp[0].startswith("(error"):
                return viol("model-error-or-malformed", idx)
            mt = V.realize(resp[0]) if real_only else resp[0]
            if mentions(mt):
                nt[0] = True
            try:
                prelude, problems = V.model_prelude(script["decls"], mt)
            except Exception as e:
                return viol("model-not-readable-by-our-reader: %r" % e, idx)
            if problems:
                return viol("model-shape: " + "; ".join(problems[:2]).replace(":", ";"), idx)
            prelude = prelude + gen.defs_text(script, idx)
            model_text = mt
            act = [c03.strip_names(t) for t, _ in active]
            zr, zd = z3_reads(prelude, ["(not (and true %s))" % " ".join(act)], tms)
            if zr == "error":
                return viol("model-not-readable-by-z3: " + str(zd)[:120].replace(":", ";"), idx)
            if zr == "sat":
                return viol("model-read-back-falsifies-assertions", idx)
            cr, cd = ref.cvc5_check(prelude, ["(not (and true %s))" % " ".join(act)], tms)
            if cr == "error" and not real_only:
                classes.append("cvc5-cannot-read-model")
            classes.append("model-ok")
        elif k == "get-value" and state == "sat" and prelude is not None:
            resp = r.resp.get(idx) or []
            if len(resp) != 1 or resp[0].startswith("(error"):
                return viol("values-error-or-malformed", idx)
            vt = V.realize(resp[0]) if real_only else resp[0]
            if mentions(vt):
                nt[0] = True
            try:
                e = sexpr.parse_one(vt)
            except Exception as ex:
                return viol("values-not-readable-by-our-reader: %r" % ex, idx)
            if not isinstance(e, list) or len(e) != len(c[1]):
                return viol("values-shape", idx)
            pl, _ = V.model_prelude(script["decls"], model_text, vt)
            pl = pl + gen.defs_text(script, idx)
            for ours, pair in zip(c[1], e):
                if not isinstance(pair, list) or len(pair) != 2:
                    return viol("values-shape", idx)
                printed_t, v = sexpr.to_str(pair[0]), sexpr.to_str(pair[1])
                zr, zd = z3_reads(pl, ["(not (and (= %s %s) (= %s %s)))" % (V.replace_abstract(printed_t), ours, V.replace_abstract(printed_t), V.replace_abstract(v))], tms)
                if zr == "error":
                    return viol("value-pair-not-readable-by-z3: " + str(zd)[:120].replace(":", ";"), idx, {"pair": sexpr.to_str(pair)})
                if zr == "sat":
                    return viol("value-pair-denotes-something-else", idx, {"pair": sexpr.to_str(pair), "our_term": ours})
            classes.append("values-ok")
        elif k in ("get-unsat-core", "get-interpolants") and state == "unsat":
            resp = r.resp.get(idx) or []
            if len(resp) != 1 or resp[0].startswith("(error"):
                continue
            ot = V.realize(resp[0]) if real_only else resp[0]
            if mentions(ot):
                nt[0] = True
            try:
                e = sexpr.parse_one(ot)
            except Exception as ex:
                return viol("formula-list-not-readable-by-our-reader: %r" % ex, idx)
            decls = osmt.ref_decls(script, idx)
            known_names = {cc[2] for cc in script["cmds"] if cc[0] == "assert-named"}
            for f in e if isinstance(e, list) else []:
                ft = sexpr.to_str(f)
                if isinstance(f, str) and (f in known_names or re.match(r"^[nkdr]\d+$", f)):
                    continue   # a name (named-core mode), not a formula
                if ".ite" in ft or ".div" in ft or ".mod" in ft:
                    continue   # C06/C08 findings
                zr, zd = z3_reads(decls, [ft if not isinstance(f, str) else ft], tms)
                if zr == "error":
                    return viol("printed-formula-not-readable-by-z3: " + str(zd)[:120].replace(":", ";"), idx, {"formula": ft})
            classes.append(k + "-ok")
    if renamed and nt[0]:
        classes.append("nt")
    return Result("ok", text if (renamed and nt[0]) else None, classes)


def shrink(case, ctx):
    from .. import shrink as shr
    import copy
    k0 = check(case, ctx).kind

    def fails(c):
        r = check(c, ctx)
        return r.status == "violation" and r.kind == k0

    def cands(c):
        for s in shr.candidates(c["script"]):
            d = copy.deepcopy(c)
            d["script"] = s
            yield d
    return shr.shrink(case, fails, gen=cands, max_rounds=200)


SHRINK = "custom"


def sample(case, res):
    return gen.render(case["script"])


def _kind_sig(kinds, pred=None):
    def f(case, res):
        k = str((res.detail or {}).get("what", "")).split(":")[0]
        return k in kinds and (pred is None or pred(case, res))
    return f


def _has_fun_needing_quotes(case, res):
    for d in case["script"]["decls"]:
        rk = V.decl_rank(d) if d.startswith("(declare-fun") else None
        if rk and rk[1] and rk[0].startswith("|"):
            return True
    return False


def _has_param_clash(case, res):
    names = {V.bare(V.decl_rank(d)[0]) for d in case["script"]["decls"] if d.startswith("(declare-fun")}
    return bool(names & {"x0", "x1", "x2", "x!0", "x!1", "y!0", "y!1"})


def _let_binder_quoted(case, res):
    idx = (res.detail or {}).get("cmd_index", 0)
    try:
        c = case["script"]["cmds"][idx]
        return c[0] == "get-value" and any("(let ((|" in t or re.search(r"\(let \(.*\(\|", t) for t in c[1])
    except Exception:
        return False


SIGNATURES = {
    "get-value-echo-let-binder-unquoted": _kind_sig({"values-not-readable-by-our-reader", "value-pair-not-readable-by-z3",
                                                     "value-pair-denotes-something-else"}, _let_binder_quoted),
    "model-prints-function-symbols-unquoted": _kind_sig({"model-not-readable-by-our-reader", "model-not-readable-by-z3", "model-shape",
                                                         "model-error-or-malformed", "model-read-back-falsifies-assertions"},
                                                        _has_fun_needing_quotes),
    "model-formal-parameters-clash-with-user-symbols": _kind_sig({"values-error-or-malformed", "model-not-readable-by-z3", "model-shape",
                                                                  "model-error-or-malformed", "value-pair-not-readable-by-z3",
                                                                  "model-read-back-falsifies-assertions"}, _has_param_clash),
    "dump-query-prints-internal-or-unquoted-symbols": _kind_sig({"dump-not-readable-by-z3", "dump-not-readable-by-opensmt",
                                                                 "dump-denotes-something-else", "dump-gives-different-answer"}),
}
