"""C04 — incremental answers equal fresh answers on the active assertions."""
import json
from .. import gen, osmt
from ..driver import Result
from . import satcommon

ID = "C04"
VARIANTS = ["fast"]
BUDGET = {"quick": (900, 120), "thorough": (30000, 1500)}
RULE = ("Hypothesis-generated histories of assert / push n / pop n / check-sat / get-* queries (re-asserted popped formulas, "
        "repeated checks, unsat levels popped and re-entered, tracking options on) over the C01 script space; at every "
        "check-sat the answer of the incremental run is compared with a fresh opensmt process given exactly the active "
        "assertions (same options, names kept). Non-trivial = compared check-sat that comes after >= 1 pop and >= 1 earlier "
        "check-sat; distinct by (options, history prefix).")
ASSUMPTIONS = ["differential against opensmt itself (fresh process); unknown/timeouts on either side inconclusive"]


def generate(rnd, tier):
    script, _, _ = gen.gen_script(rnd, tier, incremental=True if rnd.random() < 0.9 else None, history=True,
                                  min_checks=2, max_hist=14 if tier == "quick" else 40, hist_p=0.95,
                                  hist_w=(0.36, 0.17, 0.22))
    return script


def fresh_script(script, idx, active):
    cmds = [c for i, c in enumerate(script["cmds"]) if c[0] == "define-fun" and i < idx]
    for t, n in active:
        cmds.append(["assert-named", t, n] if n else ["assert", t])
    cmds.append(["check-sat"])
    return {"options": script["options"], "logic": script["logic"], "decls": script["decls"], "cmds": cmds}


def check(case, ctx):
    script = case
    to = satcommon.opensmt_timeout(script, ctx.tier)
    r = osmt.run_marked(script, "fast", to)
    classes = ["logic:" + script.get("lk", script["logic"])]
    if r.out.timeout:
        return Result("inconclusive", None, classes + ["opensmt-timeout"])
    if r.out.crashed():
        return Result("inconclusive", None, classes + ["opensmt-crash"])
    nt_key = None
    status = "ok"
    pops = checks = 0
    evals = 1
    hist = []
    for idx, c, active in gen.stack_walk(script):
        hist.append(c)
        if c[0] == "pop":
            pops += 1
        if c[0] in ("get-model", "get-value", "get-assignment", "get-unsat-core", "get-proof", "get-interpolants"):
            classes.append("query-between-checks")
        if c[0] != "check-sat":
            continue
        checks += 1
        ans = r.answer(idx)
        fs = fresh_script(script, idx, active)
        fr = osmt.run_marked(fs, "fast", to)
        evals += 1
        if fr.out.timeout or fr.out.crashed():
            status = "inconclusive"
            classes.append("fresh-timeout-or-crash")
            continue
        fans = fr.answer(len(fs["cmds"]) - 1)
        if ans not in ("sat", "unsat") or fans not in ("sat", "unsat"):
            classes.append("non-definitive:%s/%s" % (ans, fans))
            continue
        classes.append("compared:" + ans)
        if pops >= 1 and checks >= 2:
            nt_key = json.dumps([script["options"], script["logic"], hist])
            classes.append("nt")
        if ans != fans:
            detail = {"cmd_index": idx, "incremental": ans, "fresh": fans, "script": gen.render(script),
                      "fresh_script": gen.render(fs)}
            try:
                # which side is wrong (only used to recognise the known wrong-sat families shared with C02)
                from .. import ref
                detail["reference"] = ref.decide(osmt.ref_decls(script, idx), [t for t, _ in active], 8000)[0]
            except Exception as e:  # the differential verdict does not depend on the reference
                detail["reference"] = "error: %s" % e
            return Result("violation", nt_key, classes, detail, evals=evals)
    return Result(status, nt_key, classes, evals=evals)


def sample(case, res):
    return gen.render(case)


def _sig_nonincr(case, res):
    from . import sigs
    d = res.detail or {}
    return d.get("incremental") == "sat" and d.get("fresh") == "unsat" and sigs.nonincr_second_check(case, d.get("cmd_index"))


def _sig_la_deep(case, res):
    from . import sigs
    d = res.detail or {}
    return d.get("incremental") == "sat" and d.get("fresh") == "unsat" and sigs.lookahead_deep(case, d.get("cmd_index"))


def _sig_family(name):
    def f(case, res):
        from . import sigs
        d = res.detail or {}
        # one of the two runs answered sat on a set the reference solvers refute, in a configuration of a known family
        return d.get("reference") == "unsat" and sigs.WRONG_SAT_FAMILIES[name](case, d.get("cmd_index"))
    return f


SIGNATURES = {"non-incremental-second-check-sat": _sig_nonincr, "lookahead-three-assertion-levels": _sig_la_deep,
              "ghost-vars-theory-combination-wrong-sat": _sig_family("ghost-vars-theory-combination-wrong-sat"),
              "uf-bool-argument-theory-combination-wrong-sat": _sig_family("uf-bool-argument-theory-combination-wrong-sat")}
