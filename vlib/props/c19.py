"""C19 — a rejected command leaves the solver state unchanged."""
import copy, json
from .. import gen, osmt
from ..driver import Result
from . import c03, corecommon, itpcommon, satcommon

ID = "C19"
VARIANTS = ["fast"]
BUDGET = {"quick": (1300, 110), "thorough": (30000, 1500)}
RULE = ("A valid Hypothesis-generated history H (flavours: plain, models/values/assignments as in C03, unsat cores as in C06, "
        "interpolants as in C08) and H' = H with 1-3 rejected commands inserted at random positions, drawn from a catalogue built from "
        "the interpreter's failure points: ill-sorted / unknown term in assert; non-Bool assertion; :named with an existing name; "
        "partial naming (fresh and existing name in one assertion); fresh name inside an assertion that is rejected for another "
        "reason; duplicate declare-fun / declare-sort; define-fun with sort mismatch, unknown sort or existing name; pop beyond the "
        "stack (partial pop); push/pop with negative or overflowing numerals; get-value with an ill-sorted term; queries in the wrong "
        "mode. Both scripts end with probe commands that re-use every fresh name of the rejected commands. The harness first confirms "
        "that each inserted command really answered (error ...). Oracle: H and H' give the same check-sat answers and the same set of "
        "failing original commands; models/values/assignments, cores and interpolants printed by H' are validated by the C03 / C06 / "
        "C08 validators against H's assertions and names (a failure counts only if H itself passes). Non-trivial = H' whose rejected "
        "command precedes >= 1 check-sat; distinct by text.")
ASSUMPTIONS = ["C03/C06/C08 validators (z3+cvc5)", "only commands that really answered with an error are judged"]


def rejected_catalogue(rnd, script, sig_names, idx):
    """returns (text, kind, fresh names introduced)"""
    decls = script["decls"]
    names = [c[2] for c in script["cmds"][:idx] if c[0] == "assert-named"]
    k = rnd.choice(["illsorted", "unknown", "nonbool", "dupname", "partialname", "name-in-rejected", "dupdecl", "dupsort", "define-mismatch",
                    "define-unknown-sort", "define-existing", "redefine-macro", "redefine-macro", "pop-beyond", "neg-push", "overflow-pop", "getvalue-illsorted", "wrong-mode"])
    boolv = [d.split()[1] for d in decls if d.endswith("() Bool)")]
    numv = [d.split()[1] for d in decls if d.endswith("() Int)") or d.endswith("() Real)")]
    b = rnd.choice(boolv) if boolv else "true"
    fresh = "zz%d" % rnd.randint(0, 2)
    if k == "illsorted" and numv:
        return "(assert (and %s %s))" % (b, rnd.choice(numv)), k, []
    if k == "unknown":
        return "(assert (or %s undeclared_symbol_q))" % b, k, []
    if k == "nonbool" and numv:
        return "(assert %s)" % rnd.choice(numv), k, []
    if k == "dupname" and names:
        return "(assert (! %s :named %s))" % (b, rnd.choice(names)), k, []
    if k == "partialname" and names:
        return "(assert (and (! %s :named %s) (! (not %s) :named %s)))" % (b, fresh, b, rnd.choice(names)), k, [fresh]
    if k == "name-in-rejected":
        return "(assert (and (! %s :named %s) undeclared_symbol_q))" % (b, fresh), k, [fresh]
    if k == "dupdecl" and decls:
        d = rnd.choice([x for x in decls if x.startswith("(declare-fun")] or decls)
        return d, k, []
    if k == "dupsort":
        ds = [x for x in decls if x.startswith("(declare-sort")]
        if ds:
            return rnd.choice(ds), k, []
    if k == "define-mismatch":
        return "(define-fun %s () Int %s)" % ("df" + fresh, b), k, ["df" + fresh]
    if k == "define-unknown-sort":
        return "(define-fun %s ((x Nosuchsort)) Bool true)" % ("df" + fresh), k, ["df" + fresh]
    if k == "redefine-macro":
        macros = [c for c in script["cmds"][:idx] if c[0] == "define-fun"]
        if macros:
            m = rnd.choice(macros)
            probe = ["use:" + m[1]] if not m[2].strip() else []
            return "(define-fun %s (%s) %s %s)" % (m[1], m[2], m[3], m[4] if rnd.random() < 0.5 else ("true" if m[3] == "Bool" else m[4])), k, probe
    if k == "define-existing" and boolv:
        return "(define-fun %s () Bool true)" % rnd.choice(boolv), k, []
    if k == "pop-beyond":
        return "(pop %d)" % rnd.choice([5, 7, 100]), k, []
    if k == "neg-push":
        return rnd.choice(["(push -1)", "(pop -1)"]), k, []
    if k == "overflow-pop":
        return rnd.choice(["(pop 99999999999)", "(push 99999999999)"]), k, []
    if k == "getvalue-illsorted" and numv:
        return "(get-value ((and %s %s)))" % (b, rnd.choice(numv)), k, []
    if k == "wrong-mode":
        return rnd.choice(["(get-proof)", "(get-interpolants %s %s)" % (b, b), "(get-model)", "(get-unsat-core)", "(get-assignment)"]), "wrong-mode", []
    return "(assert (or %s undeclared_symbol_q))" % b, "unknown", []


def generate(rnd, tier):
    flavor = rnd.choice(["plain", "models", "models", "cores", "interpolants"])
    if flavor == "models":
        H = c03.generate(rnd, tier)
    elif flavor == "cores":
        H = corecommon.generate(rnd, tier, rnd.random() < 0.3)
    elif flavor == "interpolants":
        H = itpcommon.generate(rnd, tier, 2, 3)
    else:
        H, _, _ = gen.gen_script(rnd, tier, queries=False, engines=False, incremental=True)
    cmds = list(H["cmds"])
    lead = 0
    while lead < len(cmds) and cmds[lead][0] == "define-fun":
        lead += 1
    fresh_all = []
    kinds = []
    for _ in range(rnd.randint(1, 3)):
        pos = rnd.randint(lead, len(cmds))
        text, kind, fresh = rejected_catalogue(rnd, H, None, pos)
        cmds.insert(pos, ["raw", text, "REJ", kind])
        fresh_all += fresh
        kinds.append(kind)
    # probes re-using the fresh names (in H and H'): accepted iff the rejected commands left nothing behind
    for f in sorted(set(fresh_all)):
        if f.startswith("use:"):
            # the existing definition must still be usable after the rejected re-definition (and after pops)
            cmds.append(["raw", "(assert (= %s %s))" % (f[4:], f[4:]), "PROBE"])
        elif f.startswith("df"):
            cmds.append(["raw", "(define-fun %s () Bool true)" % f, "PROBE"])
        else:
            cmds.append(["raw", "(assert (! true :named %s))" % f, "PROBE"])
    cmds.append(["check-sat"])
    Hp = dict(H)
    Hp["cmds"] = cmds
    return {"flavor": flavor, "script": Hp, "kinds": kinds}


def split(case):
    Hp = case["script"]
    H = dict(Hp)
    H["cmds"] = [c for c in Hp["cmds"] if not (c[0] == "raw" and len(c) > 2 and c[2] == "REJ")]
    return H, Hp


def check(case, ctx):
    H, Hp = split(case)
    to = satcommon.opensmt_timeout(Hp, ctx.tier)
    rp = osmt.run_marked(Hp, "fast", to)
    classes = ["flavor:" + case["flavor"]] + ["rej:" + k for k in case["kinds"]]
    if rp.out.timeout or rp.out.crashed():
        return Result("inconclusive", None, classes + ["crash-or-timeout"])
    # confirm the inserted commands were rejected
    rej_idx = [i for i, c in enumerate(Hp["cmds"]) if c[0] == "raw" and len(c) > 2 and c[2] == "REJ"]
    for i in rej_idx:
        if not any(x.startswith("(error") for x in (rp.resp.get(i) or [])):
            return Result("inconclusive", None, classes + ["not-rejected:" + Hp["cmds"][i][3]])
    rh = osmt.run_marked(H, "fast", to)
    if rh.out.timeout or rh.out.crashed():
        return Result("inconclusive", None, classes + ["crash-or-timeout"])
    text = gen.render(Hp)
    first_rej = rej_idx[0] if rej_idx else 10 ** 9
    nt_key = text if any(c[0] == "check-sat" for c in Hp["cmds"][first_rej:]) else None

    def viol(what, extra=None):
        d = {"what": what, "script_with_rejected": text, "script_without": gen.render(H), "rejected_kinds": case["kinds"]}
        if extra:
            d.update(extra)
        return Result("violation", nt_key, classes, d)
    # map original command indices
    orig_p = [i for i, c in enumerate(Hp["cmds"]) if i not in rej_idx]
    for hi, pi in enumerate(orig_p):
        c = H["cmds"][hi]
        a, b = rh.resp.get(hi) or [], rp.resp.get(pi) or []
        ea, eb = any(x.startswith("(error") for x in a), any(x.startswith("(error") for x in b)
        if c[0] == "check-sat":
            x, y = rh.answer(hi), rp.answer(pi)
            if x != y:
                return viol("check-sat-answer-differs: %s without, %s with the rejected command(s)" % (x, y), {"cmd": hi})
        if ea != eb:
            return viol("command-%s: %s" % ("fails-only-with-rejected" if eb else "succeeds-only-with-rejected", gen.render_cmd(c)[:80].replace(":", ";")),
                        {"cmd": hi, "response_without": a, "response_with": b})
    # semantic validation of printed artefacts of H' against H's assertions
    validator = {"models": lambda s: c03.check(s, ctx), "cores": lambda s: corecommon.check(s, ctx, False),
                 "interpolants": lambda s: itpcommon.check(s, ctx, False)}.get(case["flavor"])
    if validator:
        vp = validator(Hp)
        if vp.status == "violation":
            vh = validator(H)
            if vh.status != "violation":
                return viol("artefact-invalid-after-rejected-command: " + str(vp.kind), {"validator_detail": {k: str(v)[:400] for k, v in (vp.detail or {}).items() if k != "script"}})
            classes.append("artefact-invalid-in-both")
        else:
            classes.append("artefacts-valid")
    if nt_key:
        classes.append("nt")
    return Result("ok", nt_key, classes)


def shrink(case, ctx):
    from .. import shrink as shr
    k0 = check(case, ctx).kind

    def fails(c):
        r = check(c, ctx)
        return r.status == "violation" and r.kind == k0

    def cands(c):
        for s in shr.candidates(c["script"]):
            d = copy.deepcopy(c)
            d["script"] = s
            d["kinds"] = [x[3] for x in s["cmds"] if x[0] == "raw" and len(x) > 3 and x[2] == "REJ"]
            if d["kinds"]:
                yield d
    return shr.shrink(case, fails, gen=cands, max_rounds=250)


SHRINK = "custom"


def sample(case, res):
    return gen.render(case["script"])


def _sig_name(case, res):
    d = res.detail or {}
    return str(d.get("what", "")).startswith("command-fails-only-with-rejected") and \
        any(k in ("name-in-rejected", "partialname") for k in d.get("rejected_kinds", [])) and \
        any("already exists" in x for x in d.get("response_with", []))


SIGNATURES = {"name-defined-by-rejected-assertion": _sig_name}
