"""C11 — every theory clause used in search is valid in the theory (guarded trace)."""
import json
from .. import gen, osmt, ref, trace, validators as V
from ..driver import Result
from . import satcommon

ID = "C11"
VARIANTS = ["fast"]
BUDGET = {"quick": (1300, 110), "thorough": (40000, 1500)}
RULE = ("C01's Hypothesis script generator (all logics, engines, options, histories; LIA splits/cuts, arrays and UF+LA "
        "combination emphasised) run with the guarded trace: every clause a theory solver hands to the SAT engine "
        "(THandler::getConflict, getReason incl. root-level deductions, getNewSplits) is written as SMT-LIB literals. "
        "Oracle: the disjunction of the literals is valid with no assertions (z3 proves the negation unsat and cvc5 does not "
        "contradict; user and solver-introduced symbols uninterpreted). Up to 40 distinct clauses per script. "
        "Non-trivial = theory clause with >= 2 literals, distinct by canonical text; histogram by kind and logic.")
ASSUMPTIONS = ["z3 (+cvc5 where it can parse opensmt's numerals) decide validity", "hooked build; hooks are add-only"]
EMPH = ["QF_LIA", "QF_UFLIA", "QF_UFLRA", "QF_AX", "QF_ALIA", "QF_ALRA", "QF_AUFLIA", "QF_AUFLRA", "QF_AUFLIRA", "ALL",
        "QF_IDL", "QF_RDL", "QF_LRA", "QF_UF"]


def generate(rnd, tier):
    keys = EMPH if rnd.random() < 0.7 else None
    if rnd.random() < 0.4:
        keys = ["QF_AX", "QF_ALIA", "QF_ALRA", "QF_AUFLIA", "QF_AUFLRA"]
    script, _, _ = gen.gen_script(rnd, tier, logic_keys=keys, planted_p=0.75, queries=False, dense_p=0.45)
    return script


def check(case, ctx):
    script = case
    tms = 4000 if ctx.tier == "quick" else 10000
    r, tr = trace.run_traced(script, "fast", satcommon.opensmt_timeout(script, ctx.tier))
    classes = ["logic:" + script.get("lk", script["logic"])]
    if r.out.crashed():
        classes.append("opensmt-crash")
    if r.out.timeout:
        classes.append("opensmt-timeout")
    decls = [d for d in script["decls"]] + tr.aux_decls
    real_only = not any(" Int" in d or "(Int" in d for d in script["decls"]) and \
        script["logic"] not in ("QF_LIA", "QF_IDL", "QF_UFLIA", "QF_UFIDL", "QF_ALIA", "QF_AUFLIA")
    seen = set()
    nt = []
    status = "ok"
    n = 0
    for rec in tr.records:
        if rec[0] != "T" or len(rec) < 4:
            continue
        kind = rec[1]
        lits = rec[3:]
        if "?" in lits:
            classes.append("reason-without-implied-literal")
            continue
        lits = [trace.quote_aux(V.realize(l) if real_only else l) for l in lits]
        key = kind + "|" + "|".join(sorted(lits))
        if key in seen:
            continue
        seen.add(key)
        n += 1
        if n > 40:
            break
        f = lits[0] if len(lits) == 1 else "(or %s)" % " ".join(lits)
        ok, why = ref.valid_lenient(decls, f, tms)
        th = "array" if ("select" in f or "store" in f) else "arith" if ("<=" in f) else "euf"
        classes.append("kind:%s/%s" % (kind, th))
        if len(lits) >= 2:
            nt.append(key)
        if ok is None:
            status = "inconclusive"
            classes.append("ref-unknown")
        elif ok is False:
            detail = {"what": "theory-clause-not-valid: %s" % kind, "clause": lits, "countermodel": why,
                      "script": gen.render(script), "aux_decls": tr.aux_decls}
            return Result("violation", json.dumps(nt) if nt else None, classes, detail)
    res = Result(status, None, classes)
    res.nt_keys = nt
    if nt:
        res.nt_key = json.dumps(sorted(nt))
    return res


def sample(case, res):
    return {"script": gen.render(case), "theory_clauses": getattr(res, "nt_keys", [])[:5]}
