"""C20 — pipe mode and file mode produce identical results."""
import json
from .. import gen, osmt, run
from ..driver import Result

ID = "C20"
VARIANTS = ["fast", "san"]
BUDGET = {"quick": (900, 110), "thorough": (40000, 1500)}
RULE = ("Hypothesis-generated syntactically valid scripts (C01 space + echo / set-info / string-valued set-option) rendered by "
        "a layout generator: arbitrary blanks/tabs/newlines between tokens, comments containing ( ) \" |, string literals "
        "containing ; ( ) | and the lexer's escapes \\\" and \\\\, quoted symbols containing ; ( ) \" and newlines, several "
        "commands per line, commands split over lines, no trailing newline, comment at EOF; plus a read-size schedule "
        "(incl. 1-byte reads) enforced by the guarded hook in interpPipe, and runs without schedule. Oracle: stdout and exit "
        "status of 'opensmt -p < f' equal those of 'opensmt f' byte for byte (fast build; 15% of cases also on the "
        "ASan/UBSan build). Non-trivial = script with a delimiter character inside a comment, string or quoted symbol; "
        "distinct by text.")
ASSUMPTIONS = ["file mode is the reference for pipe mode (the property is an equivalence)", "hooked build for read schedules"]

TRICKY_COMMENT = ["; plain", "; ( unbalanced", "; ) close", "; \"quote", "; | bar", ";;; (((", "; ) ) ) \" | ("]
TRICKY_STR = ["a;b", "(", ")", "x ( y", "|", "a | b", "semi ; colon )", "\\\\", "tail\\\\", "", " ", "((", "))",
              'a\\" ( b', 'q\\"', '\\" )']
TRICKY_SYM = ["|a;b|", "|(|", "|)|", "|x ( y|", "|q\"r|", "|line\nbreak|", "|semi ; colon )|", "| |", "|\"|"]


def layout(rnd, cmds_text):
    """cmds_text: list of command strings (each a balanced s-expression); returns full text"""
    out = []
    for c in cmds_text:
        # re-space tokens of the command: replace single blanks outside strings/quoted symbols
        res = []
        i, n = 0, len(c)
        while i < n:
            ch = c[i]
            if ch == '"':
                j = i + 1
                while c[j] != '"' or c[j - 1] == "\\" and c[j - 2] != "\\":
                    j += 1
                res.append(c[i:j + 1])
                i = j + 1
            elif ch == "|":
                j = c.index("|", i + 1)
                res.append(c[i:j + 1])
                i = j + 1
            elif ch == " ":
                r = rnd.random()
                if r < 0.75:
                    res.append(" ")
                elif r < 0.85:
                    res.append("\n")
                elif r < 0.9:
                    res.append("\t ")
                elif r < 0.95:
                    res.append("  \n  ")
                else:
                    res.append(" " + rnd.choice(TRICKY_COMMENT) + "\n")
                i += 1
            else:
                res.append(ch)
                i += 1
        out.append("".join(res))
        r = rnd.random()
        if r < 0.6:
            out.append("\n")
        elif r < 0.75:
            out.append(" ")
        elif r < 0.8:
            out.append("")
        elif r < 0.9:
            out.append("\n" + rnd.choice(TRICKY_COMMENT) + "\n")
        else:
            out.append(" " + rnd.choice(TRICKY_COMMENT) + "\n\n")
    text = "".join(out)
    r = rnd.random()
    if r < 0.3:
        text = text.rstrip("\n")
    elif r < 0.4:
        text = text + rnd.choice(TRICKY_COMMENT)
    return text


def generate(rnd, tier):
    script, sig, tg = gen.gen_script(rnd, tier, queries=True, engines=False, big=False, max_hist=8)
    lines = []
    for k, v in script["options"]:
        lines.append("(set-option %s %s)" % (k, v))
    if rnd.random() < 0.3:
        lines.append('(set-info :source "%s")' % rnd.choice(TRICKY_STR))
    lines.append("(set-logic %s)" % script["logic"])
    decls = list(script["decls"])
    # a few quoted symbols with delimiters inside
    qs = []
    if rnd.random() < 0.6:
        for q in rnd.sample(TRICKY_SYM, rnd.randint(1, 3)):
            decls.append("(declare-fun %s () Bool)" % q)
            qs.append(q)
    lines += decls
    for c in script["cmds"]:
        lines.append(gen.render_cmd(c))
        r = rnd.random()
        if r < 0.12:
            lines.append('(echo "%s")' % rnd.choice(TRICKY_STR))
        elif r < 0.2 and qs:
            lines.append("(assert (or %s (not %s)))" % (rnd.choice(qs), rnd.choice(qs)))
    if rnd.random() < 0.3:
        lines.append("(exit)")
    text = layout(rnd, lines)
    sched = None
    r = rnd.random()
    if r < 0.35:
        sched = [1]
    elif r < 0.75:
        sched = [rnd.choice([1, 1, 2, 3, 5, 7, 13, 64]) for _ in range(rnd.randint(1, 6))]
    return {"text": text, "schedule": sched, "san": rnd.random() < 0.15}


def check(case, ctx):
    text = case["text"]
    variant = "san" if case.get("san") else "fast"
    to = 20 if variant == "san" else 10
    f = run.run_text(text, variant, to)
    env = {"OPENSMT_VERIF_CHUNKS": ",".join(map(str, case["schedule"]))} if case.get("schedule") else None
    p = run.run_text(text, variant, to, pipe=True, env_extra=env)
    classes = ["variant:" + variant, "schedule:" + ("none" if not case.get("schedule") else "1" if case["schedule"] == [1] else "mixed")]
    if f.timeout or p.timeout:
        return Result("inconclusive", None, classes + ["timeout"], evals=2)
    tricky = any(x in text for x in ("; (", "; )", '; "', "; |", ";;; (", "|(|", "|)|", "|a;b|", "|x ( y|", '|q"r|', '"a;b"',
                                      '"("', '")"', '"x ( y"', '"|"', "semi ; colon", "line\nbreak"))
    nt_key = text if tricky else None
    if tricky:
        classes.append("nt")
    if '\\"' in text or "\\\\" in text:
        classes.append("string-escape")
    if f.crashed() or p.crashed():
        classes.append("crash")  # C18's business unless the two modes differ
    if f.stdout != p.stdout or f.rc != p.rc:
        detail = {"what": "pipe-differs-from-file", "text": text, "schedule": case.get("schedule"), "variant": variant,
                  "file": f.brief(), "pipe": p.brief()}
        return Result("violation", nt_key, classes, detail, evals=2)
    return Result("ok", nt_key, classes, evals=2)


def shrink(case, ctx):
    """line-based delta debugging on the text, then drop the schedule"""
    import copy
    cur = copy.deepcopy(case)

    def fails(c):
        return check(c, ctx).status == "violation"
    for key in ("schedule",):
        c = copy.deepcopy(cur)
        c[key] = None
        if fails(c):
            cur = c
    lines = cur["text"].split("\n")
    n = len(lines)
    k = max(1, n // 2)
    rounds = 0
    while k >= 1 and rounds < 300:
        i = 0
        progress = False
        while i < len(lines) and rounds < 300:
            cand = lines[:i] + lines[i + k:]
            c = copy.deepcopy(cur)
            c["text"] = "\n".join(cand)
            rounds += 1
            if cand and fails(c):
                lines = cand
                cur = c
                progress = True
            else:
                i += k
        if not progress:
            k //= 2
    return cur


SHRINK = "custom"


def sample(case, res):
    return case


def _sig_string_escape(case, res):
    """the pipe splitter ends a string literal at every double quote and does not know the lexer's \\\" escape"""
    return '\\"' in case["text"]


SIGNATURES = {"pipe-splitter-ignores-string-escape": _sig_string_escape}
