"""C25 — an asynchronous stop never produces a wrong answer (rapidcheck harness under TSan and ASan/UBSan)."""
from . import thrcommon

ID = "C25"
VARIANTS = ["san", "tsan"]
RULE = ("harness/h_threads.cc (mode stop), TSan and ASan/UBSan builds: rapidcheck draws an instance (as in C24; its solo answer without "
        "any stop request is the reference), a delay of 0..6000 us and the kind of request; a second thread waits for the delay and "
        "calls notifyStop() on the live solver object or notifyGlobalStop(); the solver thread records whether check() had started / "
        "finished when the request landed. Oracle: the result is unknown or the solo answer; no ThreadSanitizer / ASan / UBSan report. "
        "Non-trivial = request that landed while check() was executing; the evidence reports the landing histogram "
        "(before / during / after check).")
ASSUMPTIONS = ["wall-clock delays place the request; the landing point is measured, not assumed", "TSan happens-before race detection"]


def custom_run(tier, seed):
    return thrcommon.run(ID, "stop", tier, seed, 400, 6000)


def custom_replay(path):
    return thrcommon.replay(path)
