"""C25 — an asynchronous stop never produces a wrong answer (rapidcheck harness under TSan and ASan/UBSan)."""
from . import thrcommon

ID = "C25"
VARIANTS = ["san", "tsan"]
RULE = ("harness/h_threads.cc (mode stop), TSan and ASan/UBSan builds: rapidcheck draws an instance (as in C24; its solo answer without "
        "any stop request is the reference), a delay of 0..6000 us and the kind of request; a second thread waits for the delay and "
        "calls notifyStop() on the live solver object or notifyGlobalStop(); the solver thread records whether check() had started / "
        "finished when the request landed. Oracle: the result is unknown or the solo answer; no ThreadSanitizer / ASan / UBSan report. "
        "Non-trivial = request that landed while check() was executing; the evidence reports the landing histogram "
        "(before / during / after check). Mode stopk (the harness owns the schedule): the instance is solved by a SimpSMTSolver subclass "
        "whose notifyConsistency() hook (the one the parallel splitter uses) blocks at the K-th consistent point of the search, K drawn "
        "from 1..8, until the stopper thread has issued its request - the request thus lands between the search loop's own stop checks "
        "and the next (possibly final, complete) theory check; integer-arithmetic instances are drawn most often. Same oracle; "
        "non-trivial = request issued at a consistent point (not after the answer).")
ASSUMPTIONS = ["mode stop: wall-clock delays place the request; the landing point is measured, not assumed", "mode stopk: requests are placed at consistent points only", "TSan happens-before race detection"]


def custom_run(tier, seed):
    return thrcommon.run(ID, ["stop", "stopk"], tier, seed, 400, 6000)


def custom_replay(path):
    return thrcommon.replay(path)
