"""C10 — printed resolution proofs are closed, valid refutations of the current assertions."""
import json, re
from .. import gen, osmt, ref, sexpr, validators as V
from ..driver import Result
from . import satcommon
from .c03 import strip_names

ID = "C10"
VARIANTS = ["fast"]
BUDGET = {"quick": (1300, 110), "thorough": (30000, 1500)}
RULE = ("Hypothesis-generated unsat-leaning scripts in all logics with :produce-proofs, push/pop histories (proof requested after "
        "pops and re-checks in particular), random k-SAT over Bool constants and over theory atoms; get-proof after every "
        "check-sat. Oracle: our own line- and blank-aware reader of the printed proof: (1) shape (proof (let (cls_i ..) .. body) "
        ":core (..)); (2) every cls_k used in a res step, in the body and in :core is bound earlier; (3) every (res P Q pivot) "
        "resolves premises that contain the pivot with opposite signs and the result equals the clause stated in the comment line "
        "before the binding; (4) the body is the name of a clause bound as empty; (5) leaves: (not .frameK) only for a level K that is "
        "active in our stack model; a clause guarded by .frameK only for active K; each leaf without solver-introduced symbols is "
        "implied by the active assertions of the levels <= its guard or is valid when every literal is read as the formula it "
        "prints (Tseitin definition / theory lemma) - decided by z3 (+cvc5). Non-trivial = proof with >= 3 resolution steps and "
        ">= 1 theory or guarded leaf; distinct by (options, active set).")
ASSUMPTIONS = ["our reader of the printer's clause syntax (read from CoreSMTSolver::printSMTClause)", "z3 (+cvc5) for leaf validity",
               "leaves with solver-introduced symbols (.ite .div .mod .purify) get the structural checks only"]
AUX = (".ite", ".div", ".mod", ".purify", ".arg", ".uf", ".k!")


def generate(rnd, tier):
    r0 = rnd.random()
    if r0 < 0.15:
        s = gen.gen_ksat(rnd, False, 5, 10, [[":produce-proofs", "true"]])
        s["cmds"].append(["get-proof"])
        return s
    if r0 > 0.8:
        s = gen.gen_layered(rnd, tier, [[":produce-proofs", "true"]])
        cmds = []
        for c in s["cmds"]:
            cmds.append(c)
            if c[0] == "check-sat":
                cmds.append(["get-proof"])
        s["cmds"] = cmds
        return s
    if r0 < 0.45:
        script, _, _ = gen.gen_script(rnd, tier, tracking={"proofs"}, queries=False, planted_p=0.0, engines=False, allow_nonincr=False,
                                      hist_p=0.4, dense_p=1.0, hard=True, big=False,
                                      logic_keys=["QF_LRA", "QF_LIA", "QF_RDL", "QF_IDL", "QF_UF", "QF_UFLRA", "QF_AX", "QF_ALIA"])
    else:
        script, _, _ = gen.gen_script(rnd, tier, tracking={"proofs"}, queries=False, planted_p=0.8, engines=rnd.random() < 0.25,
                                      allow_nonincr=False, hist_p=0.85, dense_p=0.3, hist_w=(0.4, 0.2, 0.15))
    cmds = []
    for c in script["cmds"]:
        cmds.append(c)
        if c[0] == "check-sat":
            cmds.append(["get-proof"])
    script["cmds"] = cmds
    return script


def lit_key(e):
    if isinstance(e, list) and len(e) == 2 and e[0] == "not":
        return ("-", sexpr.to_str(e[1]))
    return ("+", sexpr.to_str(e))


def parse_clause(text):
    """text: clause as printed (see RULE); returns frozenset of (sign, atom) or None if unreadable"""
    t = text
    if t.strip() == "-" or t.strip() == "":
        return frozenset()
    if t.startswith("(or ") and t.rstrip("\n").endswith(" )"):
        try:
            e = sexpr.parse_one(t)
        except Exception:
            return None
        return frozenset(lit_key(x) for x in e[1:])
    try:
        e = sexpr.parse_one(t.strip())
    except Exception:
        return None
    return frozenset([lit_key(e)])


class ProofError(Exception):
    pass


def read_proof(text):
    """returns (bindings: [(name, kind, clause, res_expr|None, stated)], body_name, core_names)"""
    lines = text.split("\n")
    if not lines or not lines[0].startswith("(proof"):
        raise ProofError("does not start with (proof")
    bindings = []
    stated = None
    i = 1
    body = None
    core = None
    while i < len(lines):
        l = lines[i]
        if l.startswith("; "):
            stated = l[2:]
        elif l.startswith("(let (cls_"):
            m = re.match(r"^\(let \((cls_\d+) (.*)\)$", l)
            if not m:
                raise ProofError("unreadable binding: " + l[:80])
            name, rest = m.group(1), m.group(2)
            if rest.startswith("(res "):
                try:
                    e = sexpr.parse_one(rest)
                except Exception:
                    raise ProofError("unreadable resolution chain: " + rest[:80])
                bindings.append((name, "res", None, e, stated))
            else:
                c = parse_clause(rest)
                if c is None:
                    raise ProofError("unreadable leaf clause: " + rest[:80])
                bindings.append((name, "leaf", c, None, rest))
            stated = None
        elif l.startswith("cls_"):
            body = l.strip()
        elif l.startswith(":core"):
            j = i + 1
            if j < len(lines):
                core = re.findall(r"cls_\d+", lines[j])
            break
        i += 1
    if body is None:
        raise ProofError("no body")
    return bindings, body, core or []


def frame_ids(script, upto):
    """[(frame id, [assertions])] of the active levels before command index upto; ids count pushes (never reused)"""
    stack = [(0, [])]
    nid = 0
    for i, c in enumerate(script["cmds"]):
        if i >= upto:
            break
        if c[0] == "push":
            for _ in range(c[1]):
                nid += 1
                stack.append((nid, []))
        elif c[0] == "pop":
            for _ in range(min(c[1], len(stack) - 1)):
                stack.pop()
        elif c[0] in ("assert", "assert-named"):
            stack[-1][1].append(strip_names(c[1]))
    return stack


def check(case, ctx):
    script = case
    tms = 3000 if ctx.tier == "quick" else 8000
    r = osmt.run_marked(script, "fast", satcommon.opensmt_timeout(script, ctx.tier))
    classes = ["logic:" + script.get("lk", script["logic"])]
    if r.out.timeout or r.out.crashed():
        return Result("inconclusive", None, classes + ["crash-or-timeout"])
    if gen.opt_get(script, ":produce-proofs") != "true":
        return Result("inconclusive", None, classes + ["proofs-not-enabled"])
    real_only = not any(" Int" in d or "(Int" in d for d in script["decls"]) and \
        script["logic"] not in ("QF_LIA", "QF_IDL", "QF_UFLIA", "QF_UFIDL", "QF_ALIA", "QF_AUFLIA")
    state = None
    nt_key = None
    status = "ok"
    text = gen.render(script)

    def viol(what, idx, extra=None):
        d = {"what": what, "cmd_index": idx, "script": text, "proof": (r.raw.get(idx) or "")[:3000]}
        if extra:
            d.update(extra)
        return Result("violation", nt_key, classes, d)
    for idx, c in enumerate(script["cmds"]):
        k = c[0]
        if k in ("assert", "assert-named", "push", "pop"):
            state = None
        if k == "check-sat":
            state = r.answer(idx)
            continue
        if k != "get-proof" or state != "unsat":
            continue
        resp = r.resp.get(idx) or []
        if any(x.startswith("(error") for x in resp):
            return viol("error-response: get-proof after unsat", idx)
        ptxt = "\n".join(resp)
        # the marked splitter cuts at top level; the proof is one top-level s-expression
        if len(resp) != 1:
            return viol("malformed-proof: %d top-level items" % len(resp), idx)
        try:
            bindings, body, core = read_proof((r.raw.get(idx) or resp[0]).strip("\n"))
        except ProofError as e:
            return viol("malformed-proof: %s" % e, idx)
        bound = {}
        soft = []
        nres = 0
        frames = frame_ids(script, idx)
        active_ids = [fid for fid, _ in frames]
        decls = osmt.ref_decls(script, idx)
        special = False
        for name, kind, clause, expr, stated in bindings:
            if kind == "leaf":
                bound[name] = clause
                lits = sorted(clause)
                guards = [a for s, a in lits if a.startswith(".frame")]
                for s, a in lits:
                    if a.startswith(".frame"):
                        try:
                            fid = int(a[6:])
                        except ValueError:
                            return viol("unreadable-frame-literal: " + a, idx)
                        if fid not in active_ids:
                            return viol("leaf-of-inactive-level: %s mentions %s, active levels %s" % (name, a, active_ids), idx,
                                        {"leaf": stated})
                        special = True
                if not [x for x in lits if not x[1].startswith(".frame")]:
                    if not lits or all(s_ == "+" for s_, _ in lits):
                        classes.append("constant-leaf")   # (or .frameK false) / (not false): constant literal not printed
                        continue
                if len(lits) == 1 and lits[0][1].startswith(".frame"):
                    if lits[0][0] != "-":
                        return viol("leaf-asserts-frame-literal-positively: %s" % name, idx)
                    continue
                body_lits = [(s, a) for s, a in lits if not a.startswith(".frame")]
                ctext = " ".join(a for _, a in body_lits)
                if any(x in ctext for x in AUX):
                    classes.append("aux-leaf")
                    continue
                fid = max([int(g[6:]) for g in guards], default=0)
                premises = [t for f, ts in frames if f <= fid for t in ts]
                fl = [(a if s == "+" else "(not %s)" % a) for s, a in body_lits]
                fl = [V.realize(x) if real_only else x for x in fl]
                cl = fl[0] if len(fl) == 1 else "(or %s)" % " ".join(fl) if fl else "false"
                ok, why = ref.valid_lenient(decls, "(=> (and true %s) %s)" % (" ".join(premises), cl), tms)
                if ok is False:
                    return viol("leaf-not-implied-by-active-assertions: %s" % name, idx, {"leaf": stated, "premises": premises[:8],
                                                                                          "countermodel": str(why)[:500]})
                if ok is None:
                    status = "inconclusive"
                    classes.append("leaf-unknown")
                else:
                    if not premises or ref.valid_lenient(decls, cl, 1000)[0] is True:
                        classes.append("leaf:valid")
                        special = special or len(fl) >= 1 and ("<=" in cl or "select" in cl or "(= " in cl)
                    else:
                        classes.append("leaf:from-assertions")
            else:
                def ev(e):
                    if isinstance(e, str):
                        if e not in bound:
                            raise ProofError("unbound clause name %s" % e)
                        return bound[e]
                    if not isinstance(e, list) or len(e) != 4 or e[0] != "res":
                        raise ProofError("malformed res step")
                    a, b = ev(e[1]), ev(e[2])
                    p = sexpr.to_str(e[3])
                    if p in ("true", "false"):
                        # the printer silently skips literals of the constants, so they cannot be checked in the premises
                        return frozenset(x for x in (a | b) if x[1] != p)
                    if ("+", p) in a and ("-", p) in b:
                        pass
                    elif ("-", p) in a and ("+", p) in b:
                        pass
                    else:
                        raise ProofError("pivot %s does not occur with opposite signs in the premises" % p[:60])
                    return frozenset(x for x in (a | b) if x[1] != p)
                try:
                    res = ev(expr)
                except ProofError as e:
                    return viol("invalid-resolution: %s: %s" % (name, e), idx)
                nres += 1
                st = parse_clause(stated) if stated is not None else None
                if st is None:
                    return viol("missing-or-unreadable-stated-resolvent: %s" % name, idx)
                if st != res:
                    if st < res:
                        # the comment shows the stored clause (literals falsified at the root level already removed), the chain
                        # keeps them: recorded as its own kind; the replay continues with the *computed* resolvent, so a final
                        # clause that is not empty is still caught
                        soft.append(viol("stated-resolvent-omits-literals: %s" % name, idx, {"computed": sorted(res), "stated": stated}))
                    else:
                        return viol("resolvent-differs-from-stated-clause: %s" % name, idx, {"computed": sorted(res), "stated": stated})
                bound[name] = res
        if body not in bound:
            return viol("body-unbound: %s" % body, idx)
        if bound[body] != frozenset():
            return viol("final-clause-not-empty", idx)
        for n in core:
            if n not in bound:
                return viol("core-mentions-unbound-clause: %s" % n, idx)
        if soft:
            return soft[0]
        classes.append("proof-ok")
        if nres >= 3 and special:
            nt_key = json.dumps([script["options"], script["logic"], [t for _, ts in frames for t in ts]])
            classes.append("nt")
    return Result(status, nt_key, classes)


def sample(case, res):
    return gen.render(case)


def _sig_stale_frame(case, res):
    d = res.detail or {}
    return str(d.get("what", "")).startswith("leaf-of-inactive-level") and any(c[0] == "pop" for c in case["cmds"][:d.get("cmd_index", 0)])


def _sig_comment(case, res):
    return str((res.detail or {}).get("what", "")).startswith("stated-resolvent-omits-literals")


SIGNATURES = {"proof-reuses-clause-of-popped-level": _sig_stale_frame,
              "proof-comment-omits-root-falsified-literals": _sig_comment}
