"""C06 — unsat cores are unsatisfiable and name current assertions only."""
from .. import gen
from . import corecommon

ID = "C06"
VARIANTS = ["fast"]
BUDGET = {"quick": (1800, 120), "thorough": (40000, 1500)}
RULE = ("Hypothesis-generated unsat-leaning scripts (all logics, push/pop histories, mix of named/unnamed assertions, nested "
        ":named terms, a second name on an already asserted formula, duplicates, :print-cores-full / :minimal-unsat-cores / "
        ":global-declarations drawn per script) with get-unsat-core after every check-sat. Oracle on each core after unsat: no "
        "repeated name; every name in scope of our assertion-stack model and naming a current assertion (syntactically, or "
        "z3-equivalent to one, to respect hash-consing); listed named terms + all syntactically unnamed current assertions "
        "unsat by z3+cvc5; full mode: every printed formula z3-equivalent to a current assertion and the printed set unsat. "
        "Non-trivial = core after unsat with >= 3 named current assertions of which >= 1 is left out, or a history in which "
        "a name was popped; distinct by (options, active set).")
ASSUMPTIONS = ["z3+cvc5 agreement for unsat of the core", "z3 for formula equivalence"]


def generate(rnd, tier):
    return corecommon.generate(rnd, tier, False)


def check(case, ctx):
    res = corecommon.check(case, ctx, False)
    if res.status == "violation" and res.kind == "minimal-core-reducible":
        # irreducibility is C07's property
        res.status = "ok"
    return res


def sample(case, res):
    return gen.render(case)

SIGNATURES = corecommon.SIGNATURES
