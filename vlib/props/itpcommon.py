"""Shared generator/oracle for C08 (binary Craig interpolants) and C09 (path interpolants)."""
import json
from .. import gen, osmt, ref, sexpr, validators as V
from ..driver import Result
from . import satcommon
from .c03 import strip_names

KEYS = ["PROP", "QF_UF", "QF_LRA", "QF_LIA", "QF_UF", "QF_LRA", "QF_LIA"]
BUILTIN = {"and", "or", "not", "=>", "xor", "=", "distinct", "ite", "true", "false", "+", "-", "*", "/", "<=", "<", ">=",
           ">", "div", "mod", "let", "abs", "to_real", "to_int", "is_int"}


def itp_options(rnd, lk):
    o = []
    if rnd.random() < 0.6:
        o.append([":interpolation-bool-algorithm", str(rnd.randint(0, 5))])
    if lk in ("QF_UF",) and rnd.random() < 0.6:
        o.append([":interpolation-euf-algorithm", rnd.choice(["0", "2", "3"])])
    if lk in ("QF_LRA", "QF_LIA") and rnd.random() < 0.7:
        alg = rnd.choice(["0", "2", "3", "4", "5"] if lk == "QF_LRA" else ["0", "2", "3", "4", "5"])
        o.append([":interpolation-lra-algorithm", alg])
        if alg == "3" or rnd.random() < 0.2:
            o.append([":interpolation-lra-factor", rnd.choice(['"0"', '"1/3"', '"1/2"', '"9/10"'])])
    if rnd.random() < 0.3:
        o.append([":proof-reduce", "true"])
        for k, vals in ((":proof-num-graph-traversals", ["1", "3"]), (":proof-num-global-iterations", ["1", "2"]),
                        (":proof-rpi", ["true", "false"]), (":proof-lower-units", ["true", "false"]),
                        (":proof-struct-hash", ["true", "false"]), (":proof-reduce-expose", ["true", "false"]),
                        (":proof-alternative-inter", ["true", "false"])):
            if rnd.random() < 0.3:
                o.append([k, rnd.choice(vals)])
    if rnd.random() < 0.4:
        o.append([":simplify-interpolants", str(rnd.randint(0, 4))])
    return o


def generate(rnd, tier, kmin, kmax):
    if rnd.random() < 0.2:
        script = gen.gen_ksat(rnd, True, 6, 14)
        script["options"] = [[":produce-interpolants", "true"]] + itp_options(rnd, "PROP")
        if rnd.random() < 0.5 and not any(o[0] == ":proof-reduce" for o in script["options"]):
            script["options"].append([":proof-reduce", "true"])
        names = [c[2] for c in script["cmds"] if c[0] == "assert-named"]
        for _ in range(rnd.randint(1, 2)):
            ns = list(names)
            rnd.shuffle(ns)
            k = rnd.randint(kmin, min(kmax, len(ns)))
            cuts = sorted(rnd.sample(range(1, len(ns)), k - 1))
            groups = [ns[a:b] for a, b in zip([0] + cuts, cuts + [len(ns)])]
            script["cmds"].append(["get-interpolants", [g[0] if len(g) == 1 else "(and %s)" % " ".join(g) for g in groups]])
        return script
    script, sig, tg = gen.gen_script(rnd, tier, logic_keys=KEYS, tracking={"interpolants"}, queries=False, named=1.0,
                                     planted_p=0.8, engines=False, allow_nonincr=False, hist_p=0.45,
                                     hist_w=(0.5, 0.15, 0.13), big=rnd.random() < 0.5)
    script["options"] = [o for o in script["options"] if o[0] != ":global-declarations"] + itp_options(rnd, script["lk"])
    # known finding 'formula asserted more than once' is excluded by construction in 90% of the scripts
    if rnd.random() < 0.9:
        seen = set()
        kept = []
        for c in script["cmds"]:
            if c[0] in ("assert", "assert-named"):
                if c[1] in seen or c[1] in ("false", "true"):
                    continue
                seen.add(c[1])
            kept.append(c)
        script["cmds"] = kept
    cmds = []
    for idx, c, active in list(gen.stack_walk(script)):
        cmds.append(c)
        if c[0] != "check-sat":
            continue
        names = [n for _, n in active if n]
        if len(names) < 2:
            continue
        for _ in range(rnd.randint(1, 2)):
            ns = list(names)
            if rnd.random() < 0.7:
                rnd.shuffle(ns)
            k = min(len(ns), rnd.randint(kmin, kmax))
            if k < kmin:
                continue
            cuts = sorted(rnd.sample(range(1, len(ns)), k - 1))
            groups = [ns[a:b] for a, b in zip([0] + cuts, cuts + [len(ns)])]
            cmds.append(["get-interpolants", [g[0] if len(g) == 1 else "(and %s)" % " ".join(g) for g in groups]])
    script["cmds"] = cmds
    return script


def symbols(term_text, declared):
    try:
        e = sexpr.parse_one(term_text)
    except Exception:
        return set()
    return {a for a in sexpr.atoms(e) if a in declared}


def all_symbols(term_text):
    try:
        e = sexpr.parse_one(term_text)
    except Exception:
        return set()
    out = set()
    for a in sexpr.atoms(e):
        if a in BUILTIN or sexpr.is_num(a):
            continue
        out.add(a)
    return out


def expand_macros(script, idx, term):
    return term


def check(case, ctx, path):
    script = case
    tms = 5000 if ctx.tier == "quick" else 15000
    r = osmt.run_marked(script, "fast", satcommon.opensmt_timeout(script, ctx.tier))
    classes = ["logic:" + script.get("lk", script["logic"])]
    for k, v in script["options"]:
        if k.startswith(":interpolation") and "factor" not in k:
            classes.append("%s=%s" % (k[15:], v))
    if r.out.timeout:
        return Result("inconclusive", None, classes + ["opensmt-timeout"])
    if r.out.crashed():
        return Result("inconclusive", None, classes + ["opensmt-crash"])
    if gen.opt_get(script, ":produce-interpolants") != "true":
        return Result("inconclusive", None, classes + ["interpolation-not-enabled"])
    real_only = script["logic"] == "QF_LRA"
    declared = set()
    for d in script["decls"]:
        rk = V.decl_rank(d) if d.startswith("(declare-fun") else None
        if rk:
            declared.add(rk[0])
    macros = {c[1] for c in script["cmds"] if c[0] == "define-fun"}
    nt_key = None
    status = "ok"
    state = None

    def viol(what, idx, extra=None):
        d = {"what": what, "cmd_index": idx, "script": gen.render(script), "response": r.resp.get(idx)}
        if extra:
            d.update(extra)
        return Result("violation", nt_key, classes + ["viol:" + what.split(":")[0]], d)

    pops = 0
    for idx, c, active in gen.stack_walk(script):
        k = c[0]
        if k == "pop":
            pops += 1
        if k in ("assert", "assert-named", "push", "pop"):
            state = None
        if k == "check-sat":
            state = r.answer(idx)
            classes.append("answer:" + str(state))
            continue
        if k != "get-interpolants" or state != "unsat":
            continue
        resp = r.resp.get(idx) or []
        _names = {n for _, n in active if n}
        _req = [x for g in c[1] for x in ([g] if not g.startswith("(and ") else sexpr.parse_one(g)[1:])]
        if any(n not in _names for n in _req) or len(set(_req)) != len(_req):
            classes.append("request-names-not-current")
            continue
        if any(x.startswith("(error") for x in resp):
            return viol("request-rejected: %s" % resp[0][:80].replace(":", ";"), idx)
        if len(resp) != 1:
            return viol("malformed-response: %d top-level items" % len(resp), idx)
        try:
            itps = sexpr.parse_one(resp[0])
        except sexpr.ParseError as e:
            return viol("unparsable-interpolants: %s" % e, idx)
        groups = []
        for g in c[1]:
            groups.append([g] if not g.startswith("(and ") else sexpr.parse_one(g)[1:])
        by_name = {n: strip_names(t) for t, n in active if n}
        if not isinstance(itps, list) or len(itps) != len(groups) - 1:
            return viol("wrong-number-of-interpolants: expected %d" % (len(groups) - 1), idx)
        itps = [sexpr.to_str(x) for x in itps]
        if real_only:
            itps = [V.realize(x) for x in itps]
        decls = osmt.ref_decls(script, idx)
        all_terms = [strip_names(t) for t, _ in active]
        in_groups = set(n for g in groups for n in g)
        prev = "true"
        nonconst = 0
        for j, I in enumerate(itps):
            a_names = [n for g in groups[:j + 1] for n in g]
            A = [by_name[n] for n in a_names]
            used = set(a_names)
            B = [strip_names(t) for t, n in active if n not in used]
            symsA = set().union(*[all_symbols(t) for t in A]) if A else set()
            symsB = set().union(*[all_symbols(t) for t in B]) if B else set()
            # macros are expanded by the solver: a macro name stands for the symbols of its body
            msyms = {}
            for cc in script["cmds"]:
                if cc[0] == "define-fun":
                    msyms[cc[1]] = all_symbols(cc[4]) - {p.split()[0].lstrip("(") for p in []}
            def close(s):
                out = set(s)
                changed = True
                while changed:
                    changed = False
                    for m in list(out):
                        if m in msyms:
                            new = msyms[m] - out
                            if new:
                                out |= new
                                changed = True
                return out
            symsA, symsB = close(symsA), close(symsB)
            symsI = all_symbols(I)
            bad = [s for s in symsI if s not in declared]
            if bad:
                return viol("interpolant-mentions-undeclared-symbol: %s" % bad[0], idx, {"interpolant": I, "position": j})
            extra = [s for s in symsI if not (s in symsA and s in symsB)]
            if extra:
                return viol("interpolant-mentions-non-shared-symbol: %s" % extra[0], idx,
                            {"interpolant": I, "position": j, "A": A, "B": B})
            r1 = ref.decide(decls, A + ["(not %s)" % I], tms)
            if r1[0] == "sat":
                return viol("A-does-not-imply-interpolant", idx, {"interpolant": I, "position": j, "A": A, "B": B,
                                                                   "witness_model": r1[1]})
            r2 = ref.decide(decls, [I] + B, tms)
            if r2[0] == "sat":
                return viol("interpolant-consistent-with-B", idx, {"interpolant": I, "position": j, "A": A, "B": B,
                                                                    "witness_model": r2[1]})
            if "unknown" in (r1[0], r2[0]):
                status = "inconclusive"
                classes.append("ref-unknown")
            if path and j >= 1:
                G = [by_name[n] for n in groups[j]]
                r3 = ref.decide(decls, [prev] + G + ["(not %s)" % I], tms)
                if r3[0] == "sat":
                    return viol("path-property-fails: I_%d and G_%d do not imply I_%d" % (j, j + 1, j + 1), idx,
                                {"interpolants": itps, "groups": c[1], "witness_model": r3[1]})
                if r3[0] == "unknown":
                    status = "inconclusive"
            prev = I
            if I not in ("true", "false"):
                nonconst += 1
                shared = symsA & symsB & declared
                if shared and (symsA - symsB):
                    classes.append("nt-itp")
        if path:
            # last step: I_{k-1} and G_k imply false
            G = [by_name[n] for n in groups[-1]]
            rest = [strip_names(t) for t, n in active if n not in in_groups]
            r4 = ref.decide(decls, [prev] + G + rest, tms)
            if r4[0] == "sat":
                return viol("path-property-fails: last interpolant consistent with last group", idx,
                            {"interpolants": itps, "groups": c[1]})
            if len(groups) >= 3 and nonconst >= 2:
                nt_key = json.dumps([script["options"], all_terms, c[1]])
                classes.append("nt")
        else:
            if "nt-itp" in classes:
                nt_key = json.dumps([script["options"], all_terms, c[1]])
                classes.append("nt")
        if pops:
            classes.append("after-pop")
    return Result(status, nt_key, classes)


# ---- signatures of known findings -------------------------------------------------------------------------------
def sig_duplicate_formula(case, res):
    """the same formula (syntactically or z3-equivalent, e.g. two assertions that both simplify to false) asserted more
    than once in the script so far, under several names or again after a pop: the front end finds assertions by term
    identity in a list that never shrinks, so the A/B split is computed for the wrong assertions"""
    from .corecommon import z3_equiv
    d = res.detail or {}
    w = str(d.get("what", ""))
    if not (w.startswith("A-does-not-imply") or w.startswith("interpolant-consistent-with-B") or
            w.startswith("interpolant-mentions-non-shared") or w.startswith("request-rejected") or
            w.startswith("path-property-fails")):
        return False
    idx = d.get("cmd_index", 0)
    decls = osmt.ref_decls(case, idx)
    earlier = [strip_names(c[1]) for c in case["cmds"][:idx] if c[0] in ("assert", "assert-named")]
    by_name = {c[2]: strip_names(c[1]) for c in case["cmds"][:idx] if c[0] == "assert-named"}
    conjs = []
    try:
        for g in case["cmds"][idx][1]:
            if g.startswith("(and "):
                ms = [by_name.get(n) for n in sexpr.parse_one(g)[1:]]
                if None not in ms:
                    conjs.append("(and %s)" % " ".join(ms))
    except Exception:
        pass
    return ref.any_equivalent_pair(decls, earlier, conjs)


def sig_recheck(case, res):
    from . import sigs
    d = res.detail or {}
    w = str(d.get("what", ""))
    if not (w.startswith("A-does-not-imply") or w.startswith("interpolant-consistent-with-B") or
            w.startswith("interpolant-mentions-non-shared") or w.startswith("path-property-fails")):
        return False
    return sigs.recheck_of_unsat_state(case, d.get("cmd_index", 0))


def sig_false_assertion(case, res):
    """a current assertion that is (equivalent to) false: the returned interpolant is 'true' / not an interpolant"""
    from .corecommon import z3_equiv
    d = res.detail or {}
    w = str(d.get("what", ""))
    if not (w.startswith("A-does-not-imply") or w.startswith("interpolant-consistent-with-B") or
            w.startswith("path-property-fails")):
        return False
    idx = d.get("cmd_index", 0)
    decls = osmt.ref_decls(case, idx)
    for i, c, act in gen.stack_walk(case):
        if i == idx:
            return any(z3_equiv(decls, strip_names(t), "false") is True for t, _ in act)
    return False


def sig_conjunction_simplified(case, res):
    """(and n1 n2 ...) is built as a term: when the conjunction simplifies (complementary members -> false, a member
    that is itself a conjunction is flattened, a member true/false or repeated) it is no longer an 'and' over the
    asserted terms and the request is rejected with 'Invalid arguments'"""
    import z3
    from .corecommon import z3_equiv
    d = res.detail or {}
    if not str(d.get("what", "")).startswith("request-rejected"):
        return False
    if not any("Invalid arguments" in x for x in (d.get("response") or [])):
        return False
    idx = d.get("cmd_index", 0)
    decls = osmt.ref_decls(case, idx)
    by_name = {}
    for i, c, act in gen.stack_walk(case):
        if i == idx:
            by_name = {n: strip_names(t) for t, n in act if n}
            groups = c[1]
    for g in groups:
        if not g.startswith("(and "):
            continue
        ms = [by_name.get(n) for n in sexpr.parse_one(g)[1:]]
        if None in ms:
            continue
        if z3_equiv(decls, "(and %s)" % " ".join(ms), "false") is True:
            return True
        for m in ms:
            try:
                ctx = z3.Context()
                fs = z3.parse_smt2_string("\n".join(decls) + "\n(assert %s)" % m, ctx=ctx)
                t = z3.simplify(fs[0])
                if z3.is_and(t) or z3.is_true(t) or z3.is_false(t) or (z3.is_not(t) and z3.is_or(t.arg(0))):
                    return True
            except Exception:
                pass
    return False


def sig_divmod_symbol(case, res):
    d = res.detail or {}
    w = str(d.get("what", ""))
    return w.startswith("interpolant-mentions-undeclared-symbol") and (".div_" in w or ".mod_" in w) and \
        ("(div " in gen.render(case) or "(mod " in gen.render(case))


def sig_term_ite(case, res):
    """a term-level ite (numeric or uninterpreted sort) occurring in assertions on both sides of the split: the definition
    of the auxiliary .ite symbol belongs to one partition only and the interpolant is too weak (e.g. 'true')"""
    d = res.detail or {}
    w = str(d.get("what", ""))
    if not (w.startswith("A-does-not-imply") or w.startswith("interpolant-consistent-with-B") or
            w.startswith("path-property-fails") or w.startswith("interpolant-mentions")):
        return False
    def has_term_ite(t):
        try:
            e = sexpr.parse_one(t)
        except Exception:
            return False
        found = [False]

        def walk(x, boolctx):
            if isinstance(x, list) and x:
                if x[0] == "ite" and not boolctx:
                    found[0] = True
                arith = x[0] in ("+", "-", "*", "/", "<=", "<", ">=", ">", "=", "distinct", "div", "mod")
                for y in x[1:]:
                    walk(y, not arith and x[0] in ("and", "or", "not", "=>", "xor", "ite"))
        walk(e, True)
        return found[0]
    A, B = d.get("A") or [], d.get("B") or []
    if not A and not B:
        idx = d.get("cmd_index", 0)
        for i, c, act in gen.stack_walk(case):
            if i == idx:
                A = B = [strip_names(t) for t, _ in act]
    return any(has_term_ite(t) for t in A) and any(has_term_ite(t) for t in B)


def sig_lra_factor(case, res):
    """:interpolation-lra-algorithm 3 (strength factor): the interpolant of strict bounds comes out non-strict"""
    d = res.detail or {}
    w = str(d.get("what", ""))
    if not (w.startswith("interpolant-consistent-with-B") or w.startswith("A-does-not-imply") or w.startswith("path-property-fails")):
        return False
    return gen.opt_get(case, ":interpolation-lra-algorithm") == "3"


SIGNATURES = {"interpolation-with-formula-asserted-more-than-once": sig_duplicate_formula,
              "lra-strength-factor-interpolant-loses-strictness": sig_lra_factor,
              
              "interpolant-mentions-div-mod-auxiliary": sig_divmod_symbol,
              "interpolation-group-conjunction-simplifies": sig_conjunction_simplified,
              "interpolation-with-an-assertion-equivalent-to-false": sig_false_assertion,
              "interpolation-after-recheck-of-unsat-state": sig_recheck}
