"""C23 — runs of the executable are reproducible."""
import json, os, tempfile
from .. import gen, run
from ..driver import Result

ID = "C23"
VARIANTS = ["fast", "san"]
BUDGET = {"quick": (700, 110), "thorough": (40000, 1500)}
RULE = ("C01's Hypothesis scripts and option vectors incl. every query kind (models, values, assignments, cores, proofs, "
        "interpolants) and, in 35% of the scripts, 1-4 rejected or unusual commands (rejected option settings, unknown symbols, queries in the wrong state, get-info/get-option); options whose purpose is to print time or memory are outside the domain. Each script is run twice on "
        "the fast build (and, for 20% of the cases, twice on the ASan/UBSan build) with address-space randomisation enabled, "
        "the second time with a different environment size and working directory (shifts stack and heap addresses). Oracle: "
        "stdout and exit status byte-identical within each build. Non-trivial = script with >= 1 check-sat and >= 1 query "
        "output of >= 2 lines; distinct by text.")
ASSUMPTIONS = ["metamorphic relation only", "ASLR as provided by the kernel (never disabled)"]


def generate(rnd, tier):
    tr = set(rnd.sample(["models", "assignments", "cores", "proofs", "interpolants"], rnd.randint(1, 3)))
    lk = None
    if "interpolants" in tr:
        lk = ["PROP", "QF_UF", "QF_LRA", "QF_LIA"]
    script, _, _ = gen.gen_script(rnd, tier, queries=True, named=0.6, tracking=tr, logic_keys=lk, max_hist=8,
                                  engines=rnd.random() < 0.25)
    if rnd.random() < 0.35:
        # rejected and unusual commands: their diagnostics are output too (rejected option settings, unknown symbols, queries in
        # the wrong state, get-info/get-option); all of them leave the solving state as it is
        odd = ["(set-option :random-seed 0)", "(set-option :produce-proofs true)", "(set-option :produce-interpolants true)",
               "(set-option :produce-unsat-cores true)", "(set-option :split-type nosuch)", "(set-option :split-units nosuch)",
               "(set-option :nosuch-option 3)", "(set-option :verbosity 0)", "(get-option :random-seed)", "(get-option :nosuch)",
               "(get-info :name)", "(get-info :version)", "(get-info :nosuch)", "(set-info :source |x y|)", "(assert undeclared_sym)",
               "(assert (and true (undeclared_fun 1)))", "(get-value (undeclared_sym))", "(declare-fun w_odd () NoSuchSort)",
               "(set-logic QF_UF)", "(pop 77)", "(echo \"odd\")", "(get-unsat-core)", "(get-model)", "(get-proof)",
               "(set-option :interpolation-bool-algorithm 99)", "(set-option :ccmin-mode 9)", "(set-option :restart-inc 0.5)"]
        for _ in range(rnd.randint(1, 4)):
            script["cmds"].insert(rnd.randint(0, len(script["cmds"])), ("raw", rnd.choice(odd)))
    return {"script": script, "pad": rnd.randint(1, 4000), "san": rnd.random() < 0.2}


def check(case, ctx):
    script = case["script"]
    text = gen.render(script)
    variant = "san" if case.get("san") else "fast"
    to = 20 if variant == "san" else 10
    slow = any(k in (":pure-lookahead", ":picky", ":ghost-vars") for k, _ in script["options"])
    if slow:
        to = 3
    a = run.run_text(text, variant, to)
    d = tempfile.mkdtemp(dir=run.WORK)
    try:
        b = run.run_text(text, variant, to, env_extra={"VERIF_PAD": "x" * case["pad"], "VERIF_PAD2": "y" * (case["pad"] // 3)},
                         cwd=d)
    finally:
        try:
            os.rmdir(d)
        except OSError:
            pass
    classes = ["variant:" + variant]
    if a.timeout or b.timeout:
        return Result("inconclusive", None, classes + ["timeout"], evals=2)
    nt_key = None
    qlines = [l for l in a.stdout.split("\n") if l and l not in ("sat", "unsat", "unknown") and not l.startswith("(error")]
    if any(c[0] == "check-sat" for c in script["cmds"]) and len(qlines) >= 2:
        nt_key = text
        classes.append("nt")
    if a.stdout != b.stdout or a.rc != b.rc:
        detail = {"what": "runs-differ", "script": text, "run1": a.brief(), "run2": b.brief(), "variant": variant}
        return Result("violation", nt_key, classes, detail, evals=2)
    return Result("ok", nt_key, classes, evals=2)


def shrink(case, ctx):
    from .. import shrink as shr
    import copy

    def fails(c):
        # flaky by nature: require 2 of 3
        return sum(1 for _ in range(3) if check(c, ctx).status == "violation") >= 2

    def cands(c):
        for s in shr.candidates(c["script"]):
            d = copy.deepcopy(c)
            d["script"] = s
            yield d
    return shr.shrink(case, fails, gen=cands, max_rounds=150)


SHRINK = "custom"


def sample(case, res):
    return gen.render(case["script"])
