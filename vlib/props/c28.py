"""C28 — equal terms share one identity and subterms come first (in-process rapidcheck harness)."""
from . import hcommon

ID = "C28"
VARIANTS = ["san"]
RULE = ("harness/h_mkterm.cc (mode hc) against libopensmt (ASan+UBSan): a rapidcheck entropy vector drives sequences of 2-11 "
        "outermost constructor calls (each on bottom-up built normal-form arguments, depth <= 2) over one QF_AUFLIRA logic instance "
        "that persists across cases (so earlier terms are re-constructed all the time). Model: the list of (constructor, argument "
        "identities, result identity). Invariants: calling the same constructor with the same argument identities again returns "
        "the same PTRef; for the constructors that normalise argument order (and, or, + , *, and = / distinct over non-Bool sorts) "
        "rotated / reversed arguments return the same PTRef; within a case two different PTRefs never print to the same "
        "sort-annotated text; every term has a larger id and reference than each of its subterms. Non-trivial = case with >= 1 "
        "re-construction and >= 1 genuinely permuted commutative call.")
ASSUMPTIONS = ["term identity = PTRef; creation order = Pterm id and PTRef value"]


def custom_run(tier, seed):
    return hcommon.run_rc_property(ID, "h_mkterm", ["hc"], tier, seed, 2000, 60000)


def custom_replay(path):
    return hcommon.replay("h_mkterm", path)
