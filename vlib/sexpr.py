"""Minimal S-expression reader/printer for SMT-LIB text (opensmt output and our own scripts).

Atoms are str; lists are Python lists. Quoted symbols keep their bars, strings keep their quotes.
"""
from fractions import Fraction


class ParseError(Exception):
    pass


def tokenize(text):
    i, n = 0, len(text)
    out = []
    while i < n:
        c = text[i]
        if c in " \t\r\n":
            i += 1
        elif c == ";":
            while i < n and text[i] != "\n":
                i += 1
        elif c in "()":
            out.append(c)
            i += 1
        elif c == "|":
            j = text.find("|", i + 1)
            if j < 0:
                raise ParseError("unterminated |")
            out.append(text[i:j + 1])
            i = j + 1
        elif c == '"':
            j = i + 1
            while True:
                if j >= n:
                    raise ParseError("unterminated string")
                if text[j] == "\\" and j + 1 < n:
                    j += 2
                    continue
                if text[j] == '"':
                    if j + 1 < n and text[j + 1] == '"':
                        j += 2
                        continue
                    break
                j += 1
            out.append(text[i:j + 1])
            i = j + 1
        else:
            j = i
            while j < n and text[j] not in " \t\r\n()|\";":
                j += 1
            out.append(text[i:j])
            i = j
    return out


def parse_all(text):
    toks = tokenize(text)
    pos = 0
    res = []
    stack = []
    for t in toks:
        if t == "(":
            stack.append([])
        elif t == ")":
            if not stack:
                raise ParseError("unbalanced )")
            l = stack.pop()
            if stack:
                stack[-1].append(l)
            else:
                res.append(l)
        else:
            if stack:
                stack[-1].append(t)
            else:
                res.append(t)
    if stack:
        raise ParseError("unbalanced (")
    return res


def parse_one(text):
    r = parse_all(text)
    if len(r) != 1:
        raise ParseError("expected exactly one s-expression, got %d" % len(r))
    return r[0]


def to_str(e):
    if isinstance(e, str):
        return e
    return "(" + " ".join(to_str(x) for x in e) + ")"


def atoms(e, acc=None):
    if acc is None:
        acc = set()
    if isinstance(e, str):
        acc.add(e)
    else:
        for x in e:
            atoms(x, acc)
    return acc


def num_value(e):
    """Exact value of a printed numeric constant: n, d.ddd, (- n), (/ n d), (/ (- n) d), (- (/ n d))."""
    if isinstance(e, str):
        s = e
        if "/" in s:
            a, b = s.split("/")
            return Fraction(int(a), int(b))
        if "." in s:
            a, b = s.split(".")
            neg = a.startswith("-")
            a = a.lstrip("-")
            v = Fraction(int(a or "0")) + (Fraction(int(b), 10 ** len(b)) if b else 0)
            return -v if neg else v
        return Fraction(int(s))
    if len(e) == 2 and e[0] == "-":
        return -num_value(e[1])
    if len(e) == 3 and e[0] == "/":
        return num_value(e[1]) / num_value(e[2])
    raise ValueError("not a numeric constant: %s" % to_str(e))


def is_num(e):
    try:
        num_value(e)
        return True
    except Exception:
        return False
