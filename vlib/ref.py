"""Reference oracle: z3 (python 5.x) and cvc5 (python 1.4) in-process, logic ALL.

decide(decls, assertions) -> ("sat", model_text) | ("unsat", None) | ("unknown", why)
  sat   : z3 says sat AND z3's model evaluates every assertion to true AND cvc5 does not say unsat
  unsat : z3 and cvc5 both say unsat
"""
import z3
try:
    import cvc5
except Exception:  # pragma: no cover
    cvc5 = None


def _text(decls, assertions):
    return "\n".join(list(decls) + ["(assert %s)" % a for a in assertions]) + "\n"


_CTX = [None, 0]


def _ctx():
    """One z3 context per process, renewed every 300 queries: creating (and never freeing) a context per query costs
    ~0.3 s each once a few hundred are alive; every from_string call has its own parser scope, so reuse is safe."""
    import gc
    if _CTX[0] is None or _CTX[1] >= 300:
        _CTX[0] = None
        gc.collect()
        _CTX[0] = z3.Context()
        _CTX[1] = 0
    _CTX[1] += 1
    return _CTX[0]


def z3_check(decls, assertions, timeout_ms=5000, want_model=True):
    ctx = _ctx()
    s = z3.Solver(ctx=ctx)
    s.set("timeout", timeout_ms)
    try:
        s.from_string(_text(decls, assertions))
    except z3.Z3Exception as e:
        return "error", str(e)[:300]
    r = s.check()
    if r == z3.unsat:
        return "unsat", None
    if r == z3.sat:
        m = s.model()
        for a in s.assertions():
            v = m.eval(a, model_completion=True)
            if not z3.is_true(v):
                return "unknown", "z3 model does not evaluate assertion to true: %s" % str(v)[:100]
        return "sat", (m.sexpr() if want_model else "")
    return "unknown", s.reason_unknown()


def cvc5_check(decls, assertions, timeout_ms=5000):
    if cvc5 is None:
        return "unknown", "cvc5 missing"
    try:
        tm = cvc5.TermManager()
        slv = cvc5.Solver(tm)
        slv.setOption("tlimit-per", str(timeout_ms))
        slv.setOption("produce-models", "false")
        slv.setLogic("ALL")
        sm = cvc5.SymbolManager(tm)
        p = cvc5.InputParser(slv, sm)
        p.setStringInput(cvc5.InputLanguage.SMT_LIB_2_6, _text(decls, assertions) + "(check-sat)\n", "ref")
        res = None
        while True:
            cmd = p.nextCommand()
            if cmd.isNull():
                break
            out = cmd.invoke(slv, sm)
            if cmd.getCommandName() == "check-sat":
                res = out.strip()
        if res in ("sat", "unsat"):
            return res, None
        return "unknown", res
    except Exception as e:
        return "error", str(e)[:300]


def decide(decls, assertions, timeout_ms=5000, need="both"):
    """need: 'both' (default rule), 'sat' (only interested in certifying sat), 'unsat'."""
    zr, zd = z3_check(decls, assertions, timeout_ms)
    if zr == "error":
        return "unknown", "z3 parse error: " + str(zd)
    if zr == "unknown":
        return "unknown", "z3: " + str(zd)
    cr, cd = cvc5_check(decls, assertions, timeout_ms)
    if zr == "sat":
        if cr == "unsat":
            return "unknown", "references disagree (z3 sat / cvc5 unsat)"
        return "sat", zd
    # z3 unsat
    if cr == "unsat":
        return "unsat", None
    if cr == "sat":
        return "unknown", "references disagree (z3 unsat / cvc5 sat)"
    return "unknown", "cvc5: %s %s" % (cr, cd)


def valid(decls, formula, timeout_ms=5000):
    """True iff (not formula) is unsat for both; False iff certified sat; None unknown."""
    r, _ = decide(decls, ["(not %s)" % formula], timeout_ms)
    return True if r == "unsat" else (False if r == "sat" else None)


def equivalent(decls, a, b, timeout_ms=5000):
    return valid(decls, "(= %s %s)" % (a, b), timeout_ms)


def any_equivalent_pair(decls, terms, extra=(), timeout_ms=300, max_n=90):
    """True iff two of `terms` (or one of `extra` and one of `terms`) are equivalent; one z3 context for all."""
    terms = list(terms)
    extra = list(extra)
    if len(set(terms)) < len(terms) or any(e in terms for e in extra):
        return True
    if len(terms) + len(extra) > max_n:
        return False
    try:
        ctx = _ctx()
        fs = z3.parse_smt2_string("\n".join(list(decls) + ["(assert %s)" % t for t in terms + extra]), ctx=ctx)
    except z3.Z3Exception:
        return False
    fs = list(fs)
    n = len(terms)
    simp = [z3.simplify(f).sexpr() for f in fs]
    if len(set(simp[:n])) < n or any(x in simp[:n] for x in simp[n:]):
        return True
    s = z3.Solver(ctx=ctx)
    s.set("timeout", timeout_ms)
    for i in range(len(fs)):
        for j in range(min(i, n)):
            if i < n or True:
                s.push()
                s.add(fs[i] != fs[j])
                r = s.check()
                s.pop()
                if r == z3.unsat:
                    return True
    return False


def valid_lenient(decls, formula, timeout_ms=5000):
    """Validity where cvc5 may be unable to read opensmt's numerals (Int-looking constants in Real positions):
    True  : z3 proves (not f) unsat and cvc5 says unsat or cannot parse/decide
    False : z3 finds a validated model of (not f) and cvc5 does not say unsat   -> (False, model)
    None  : otherwise"""
    zr, zd = z3_check(decls, ["(not %s)" % formula], timeout_ms)
    if zr == "error":
        return None, "z3 parse error: " + str(zd)
    cr, cd = cvc5_check(decls, ["(not %s)" % formula], timeout_ms)
    if zr == "unsat":
        if cr == "sat":
            return None, "references disagree"
        return True, None
    if zr == "sat":
        if cr == "unsat":
            return None, "references disagree"
        return False, zd
    return None, "z3: %s" % zd
