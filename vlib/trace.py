"""Run a script with the guarded trace enabled and parse the records."""
import os, tempfile
from . import osmt, run


class Trace:
    def __init__(self, records, aux_decls):
        self.records = records          # list of lists (tab-split)
        self.aux_decls = aux_decls      # SMT-LIB declarations of solver-introduced symbols


def run_traced(script, variant="fast", timeout=10.0):
    fd, path = tempfile.mkstemp(suffix=".trace", dir=run.WORK)
    os.close(fd)
    try:
        r = osmt.run_marked(script, variant, timeout, env_extra={"OPENSMT_VERIF_TRACE": path})
        recs = []
        aux = []
        with open(path, errors="replace") as f:
            nread = 0
            for line in f:
                nread += len(line)
                if nread > 6_000_000:   # run-away searches (known lookahead loop) write tens of MB; the head is enough
                    break
                line = line.rstrip("\n")
                if not line:
                    continue
                parts = line.split("\t")
                if parts[0] == "S" and len(parts) == 4:
                    aux.append("(declare-fun |%s| %s %s)" % (parts[1], parts[2], parts[3]))
                recs.append(parts)
        return r, Trace(recs, aux)
    finally:
        try:
            os.unlink(path)
        except OSError:
            pass


def quote_aux(text):
    """Solver-introduced symbols start with '.', which is a legal simple-symbol character in SMT-LIB; z3/cvc5 accept them
    unquoted as well, but we quote for safety: .name -> |.name|"""
    import re
    return re.sub(r"(?<![\w|.@!$])(\.[A-Za-z][\w.!@$-]*)", r"|\1|", text)
