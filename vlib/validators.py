"""Validators for printed artefacts (models, values, cores, interpolants)."""
import re
from . import sexpr, ref

ABS = re.compile(r"\(as (@[A-Za-z0-9_!]+) (\|[^|]*\||[^()\s]+)\)")


def abstract_values(text):
    """{sort: set(names)} of abstract values '(as @k U)' in text."""
    out = {}
    for m in ABS.finditer(text):
        out.setdefault(m.group(2), set()).add(m.group(1))
    return out


def _sname(sort):
    return re.sub(r"[^A-Za-z0-9_]", "_", sort)


def replace_abstract(text):
    return ABS.sub(lambda m: "|av%s_%s|" % (m.group(1), _sname(m.group(2))), text)


def bare(name):
    return name[1:-1] if len(name) >= 2 and name[0] == "|" and name[-1] == "|" else name


NUMERAL = re.compile(r"(?<![\w@.!|$#])(\d+)(?![\w.])")


def realize(text):
    """In a logic without Int, opensmt prints Real values as bare numerals ('0', '(/ 5 2)'); SMT-LIB allows that there,
    but z3/cvc5 in logic ALL read them as Int. Turn standalone numerals into decimals."""
    # never inside |quoted symbols|
    parts = re.split(r"(\|[^|]*\|)", text)
    return "".join(p if p.startswith("|") else NUMERAL.sub(lambda m: m.group(1) + ".0", p) for p in parts)


class ModelError(Exception):
    pass


def parse_model(resp):
    """resp: text of the get-model response. Returns [(name, define-fun text)]"""
    e = sexpr.parse_one(resp)
    defs = []
    for d in e:
        if not isinstance(d, list) or len(d) != 5 or d[0] != "define-fun":
            raise ModelError("unexpected model entry: %s" % sexpr.to_str(d)[:200])
        defs.append((d[1], d))
    return defs


def decl_rank(decl):
    e = sexpr.parse_one(decl)
    if e[0] == "declare-fun":
        return e[1], [sexpr.to_str(a) for a in e[2]], sexpr.to_str(e[3])
    if e[0] == "declare-const":
        return e[1], [], sexpr.to_str(e[2])
    return None


def model_prelude(decls, model_text, extra_text=""):
    """Text that declares sorts and abstract values and defines every symbol as the model prints it.
    Returns (prelude_lines, problems)."""
    problems = []
    defs = parse_model(model_text)
    defnames = {}
    for name, d in defs:
        if bare(name) in defnames:
            problems.append("symbol defined twice in model: " + name)
        defnames[bare(name)] = d
    lines = []
    for d in decls:
        if d.startswith("(declare-sort"):
            lines.append(d)
    av = abstract_values(model_text + " " + extra_text)
    for sort, names in sorted(av.items()):
        ns = sorted(names)
        for n in ns:
            lines.append("(declare-fun |av%s_%s| () %s)" % (n, _sname(sort), sort))
        if len(ns) > 1:
            lines.append("(assert (distinct %s))" % " ".join("|av%s_%s|" % (n, _sname(sort)) for n in ns))
    for d in decls:
        if d.startswith("(declare-sort"):
            continue
        rk = decl_rank(d)
        if rk is None:
            lines.append(d)
            continue
        name, args, ret = rk
        if bare(name) not in defnames:
            problems.append("no definition for declared symbol " + name)
            lines.append(d)
            continue
        md = defnames[bare(name)]
        margs = [sexpr.to_str(p[1]) for p in md[2]]
        mret = sexpr.to_str(md[3])
        if [bare(x) for x in margs] != [bare(x) for x in args] or bare(mret) != bare(ret):
            problems.append("definition of %s has rank %s -> %s, declared %s -> %s" % (name, margs, mret, args, ret))
            lines.append(d)
            continue
        lines.append(replace_abstract(sexpr.to_str(md)))
    return lines, problems


def holds_in_model(prelude, formula, timeout_ms=5000):
    """True: formula is true under the definitions (not formula unsat by z3 and cvc5); False: certified false; None."""
    return ref.valid(prelude, replace_abstract(formula), timeout_ms)
