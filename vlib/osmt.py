"""Run a generated script with echo markers so that every response is attributed to its command."""
from . import gen, run

MARK = "@@M"


def render_marked(script):
    out = []
    for k, v in script["options"]:
        out.append("(set-option %s %s)" % (k, v))
    out.append("(set-logic %s)" % script["logic"])
    out += script["decls"]
    out.append('(echo "%s-1")' % MARK)
    for i, c in enumerate(script["cmds"]):
        out.append(gen.render_cmd(c))
        out.append('(echo "%s%d")' % (MARK, i))
    return "\n".join(out) + "\n"


class Run:
    """out: run.Out; resp: {cmd_index: [response text...]} (index -1 = preamble); complete: all markers seen."""

    def __init__(self, out, resp, complete, raw=None):
        self.out, self.resp, self.complete = out, resp, complete
        self.raw = raw or {}   # unsplit text per command (comment lines kept)

    def answer(self, idx):
        """check-sat answer at command idx: 'sat'/'unsat'/'unknown'/'error'/None"""
        r = self.resp.get(idx)
        if not r:
            return None
        for x in r:
            if x in ("sat", "unsat", "unknown"):
                return x
        if any(x.startswith("(error") for x in r):
            return "error"
        return None

    def errors(self):
        return [(i, x) for i, rs in self.resp.items() for x in rs if x.startswith("(error")]


def run_marked(script, variant="fast", timeout=10.0, pipe=False, env_extra=None, text=None):
    text = text if text is not None else render_marked(script)
    o = run.run_text(text, variant, timeout, pipe=pipe, env_extra=env_extra)
    import re
    resp = {}
    raw = {}
    n = len(script["cmds"])
    seen = 0
    nxt = -1
    cur = []
    for line in o.stdout.split("\n"):
        m = re.match(r"^@@M(-?\d+)$", line)
        if m:
            idx = int(m.group(1))
            resp[idx] = run.split_responses("\n".join(cur))
            raw[idx] = "\n".join(cur)
            cur = []
            seen += 1
            nxt = idx + 1
        else:
            cur.append(line)
    rest = run.split_responses("\n".join(cur))
    if rest:
        resp[nxt] = resp.get(nxt, []) + rest
    return Run(o, resp, seen == n + 1, raw)


def ref_decls(script, upto=None):
    return list(script["decls"]) + gen.defs_text(script, upto)


def script_text(script):
    return gen.render(script)
