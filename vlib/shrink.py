"""Greedy structural minimiser for script cases (after Hypothesis' own shrinking).

Every candidate is judged by re-running the property's oracle, so a shrunk case is always a real failing case."""
import copy
from . import sexpr


def _used_symbols(script):
    acc = set()
    for c in script["cmds"]:
        for x in c[1:]:
            if isinstance(x, str):
                try:
                    for e in sexpr.parse_all(x):
                        sexpr.atoms(e, acc)
                except Exception:
                    acc.add(x)
            elif isinstance(x, list):
                for y in x:
                    if isinstance(y, str):
                        try:
                            for e in sexpr.parse_all(y):
                                sexpr.atoms(e, acc)
                        except Exception:
                            pass
    return acc


def _subterm_variants(t):
    """smaller terms of the same sort are unknown to us; only Boolean-structure simplifications that keep sorts:
    (and a b c) -> a | b | c | (and a b) ...; (not (not a)) -> a; (or ...) same."""
    try:
        e = sexpr.parse_one(t)
    except Exception:
        return
    if isinstance(e, str):
        return
    if e[0] in ("and", "or") and len(e) > 2:
        for i in range(1, len(e)):
            yield sexpr.to_str(e[i])
        if len(e) > 3:
            for i in range(1, len(e)):
                yield sexpr.to_str(e[:i] + e[i + 1:])
    if e[0] == "not" and isinstance(e[1], list) and e[1][0] == "not":
        yield sexpr.to_str(e[1][1])
    if e[0] == "let" and len(e) == 3:
        pass


def fix_requests(c):
    """after commands were dropped: remove names that no longer exist from get-interpolants requests"""
    names = {x[2] for x in c["cmds"] if x[0] == "assert-named"}
    out = []
    for x in c["cmds"]:
        if x[0] == "get-interpolants":
            groups = []
            for g in x[1]:
                ns = [g] if not g.startswith("(and ") else sexpr.parse_one(g)[1:]
                ns = [n for n in ns if n in names]
                if ns:
                    groups.append(ns[0] if len(ns) == 1 else "(and %s)" % " ".join(ns))
            if len(groups) < 2:
                continue
            x = ["get-interpolants", groups]
        out.append(x)
    c["cmds"] = out
    return c


def candidates(case):
    for c in _candidates(case):
        if any(x[0] == "get-interpolants" for x in c.get("cmds", [])):
            c = fix_requests(c)
        yield c


def _candidates(case):
    s = case
    # drop options
    for i in range(len(s["options"])):
        c = copy.deepcopy(s)
        del c["options"][i]
        yield c
    # drop commands (chunks first)
    n = len(s["cmds"])
    k = n // 2
    while k >= 1:
        for i in range(0, n, k):
            c = copy.deepcopy(s)
            del c["cmds"][i:i + k]
            if c["cmds"]:
                yield c
        k //= 2
    # simplify assertion terms
    for i, cmd in enumerate(s["cmds"]):
        if cmd[0] in ("assert", "assert-named"):
            for v in _subterm_variants(cmd[1]):
                c = copy.deepcopy(s)
                c["cmds"][i][1] = v
                yield c
    # drop unused declarations
    used = _used_symbols(s)
    for i, d in enumerate(s["decls"]):
        try:
            e = sexpr.parse_one(d)
            name = e[1]
        except Exception:
            continue
        if e[0] == "declare-sort":
            if any(name in sexpr.atoms(sexpr.parse_one(x)) for j, x in enumerate(s["decls"]) if j != i):
                continue
        if name not in used:
            c = copy.deepcopy(s)
            del c["decls"][i]
            yield c


def well_formed(s):
    """push/pop balanced (never below level 0); queries directly follow what they followed before is not required"""
    d = 0
    for c in s.get("cmds", []):
        if c[0] == "push":
            d += c[1]
        elif c[0] == "pop":
            d -= c[1]
            if d < 0:
                return False
    return True


def shrink(case, still_fails, max_rounds=400, gen=candidates, max_s=120.0):
    import time
    t_end = time.time() + max_s
    cur = case
    rounds = 0
    progress = True
    while progress and rounds < max_rounds:
        progress = False
        for cand in gen(cur):
            rounds += 1
            if rounds > max_rounds or time.time() > t_end:
                rounds = max_rounds + 1
                break
            try:
                if isinstance(cand, dict) and "cmds" in cand and not well_formed(cand):
                    continue
                if isinstance(cand, dict) and "script" in cand and not well_formed(cand["script"]):
                    continue
                if still_fails(cand):
                    cur = cand
                    progress = True
                    break
            except Exception:
                continue
    return cur
