"""Run the in-process C++ harnesses (rapidcheck / exhaustive modes) and collect their counters."""
import json, os, subprocess, tempfile, concurrent.futures as cf
from . import build

HDIR = os.path.join(build.ROOT, ".build", "harness")
ENV = {"ASAN_OPTIONS": "detect_leaks=0:exitcode=99", "UBSAN_OPTIONS": "print_stacktrace=0",
       "TSAN_OPTIONS": "exitcode=66:halt_on_error=0"}


def ensure(names, tsan=False):
    build.ensure("san")
    if tsan:
        build.ensure("tsan")
    subprocess.check_call([os.path.join(build.ROOT, "tools", "build_harness_api.sh")] + list(names), stdout=subprocess.DEVNULL,
                          env=dict(os.environ, VERIF_REPO=build.REPO))


def run_one(name, args, rc_params=None, exclude="", timeout=None, extra_env=None):
    timeout = timeout or (700 if os.environ.get("VERIF_TIER_RUN", "quick") == "quick" else 3000)
    wd = os.path.join(build.ROOT, ".work")
    fd, sp = tempfile.mkstemp(suffix=".stats", dir=wd)
    os.close(fd)
    fd, fp = tempfile.mkstemp(suffix=".fail", dir=wd)
    os.close(fd)
    env = dict(os.environ)
    env.update(ENV)
    env.update({"H_STATS": sp, "H_FAIL": fp, "H_EXCLUDE": exclude})
    if rc_params:
        env["RC_PARAMS"] = rc_params
    if extra_env:
        env.update(extra_env)
    try:
        p = subprocess.run([os.path.join(HDIR, name)] + list(args), stdout=subprocess.PIPE, stderr=subprocess.PIPE, env=env,
                           timeout=timeout)
        rc, out, err, to = p.returncode, p.stdout.decode("utf-8", "replace"), p.stderr.decode("utf-8", "replace"), False
    except subprocess.TimeoutExpired as e:
        rc, out, err, to = None, (e.stdout or b"").decode("utf-8", "replace"), (e.stderr or b"").decode("utf-8", "replace"), True
    stats = None
    try:
        stats = json.load(open(sp))
    except Exception:
        pass
    fail = open(fp).read() if os.path.getsize(fp) else ""
    os.unlink(sp)
    os.unlink(fp)
    ub = sorted({l.strip() for l in err.split("\n") if "runtime error:" in l})
    races = []
    if "WARNING: ThreadSanitizer" in err:
        cur = None
        for l in err.split("\n"):
            if "WARNING: ThreadSanitizer" in l:
                cur = [l.strip()]
                races.append(cur)
            elif cur is not None and l.strip().startswith("#") and len(cur) < 4 and "/repo/src" in l:
                cur.append(l.strip().split(" /repo/src/")[-1].split(" (")[0])
        races = sorted({" | ".join(r) for r in races})
    asan = "ERROR: AddressSanitizer" in err
    return {"rc": rc, "timeout": to, "stdout": out[-4000:], "stderr": err[-3000:], "stats": stats, "fail": fail, "ub": ub,
            "asan": asan, "args": list(args), "rc_params": rc_params, "races": races, "name": name}


def run_many(jobs, workers=16):
    """jobs: list of kwargs for run_one"""
    with cf.ThreadPoolExecutor(max_workers=workers) as ex:
        return list(ex.map(lambda kw: run_one(**kw), jobs))


def merge_stats(results):
    ev = nt = 0
    classes = {}
    samples = []
    for r in results:
        st = r.get("stats") or {}
        ev += st.get("evaluations", 0)
        nt += st.get("nontrivial", 0)
        for k, v in (st.get("classes") or {}).items():
            classes[k] = classes.get(k, 0) + v
        for s in st.get("samples") or []:
            if len(samples) < 5:
                samples.append(s)
    return ev, nt, classes, samples


def known_excludes(pid):
    from .driver import load_known
    return load_known(pid)


def save_fail(pid, name, text, meta):
    d = os.path.join(build.ROOT, ".work", "found", pid)
    os.makedirs(d, exist_ok=True)
    import hashlib
    path = os.path.join(d, "found_%s_%s.txt" % (name, hashlib.sha1(text.encode()).hexdigest()[:12]))
    with open(path, "w") as f:
        f.write(text)
    with open(path + ".meta.json", "w") as f:
        json.dump(meta, f, indent=1)
    return os.path.relpath(path, build.ROOT)
