"""Incremental out-of-tree builds of /repo (current working tree) into /verif/.build/<variant>.

usage: python3 -m vlib.build ensure fast san ...
"""
import fcntl, os, subprocess, sys, time

ROOT = os.path.dirname(os.path.dirname(os.path.abspath(__file__)))
REPO = os.environ.get("VERIF_REPO", "/repo")
BUILD = os.path.join(ROOT, ".build")
GUARD = "OPENSMT_VERIF_HOOKS"

COMMON = "-Wno-error -D%s" % GUARD
VARIANTS = {
    # name: (compiler, flags, ld flags)
    "fast": ("g++", "-O2 -g1 -DNDEBUG " + COMMON, ""),
    "san": ("clang++-14", "-O1 -g -DNDEBUG -fsanitize=address,undefined -fno-sanitize-recover=undefined "
                          "-fno-omit-frame-pointer " + COMMON, "-fsanitize=address,undefined"),
    "tsan": ("clang++-14", "-O1 -g -DNDEBUG -fsanitize=thread " + COMMON, "-fsanitize=thread"),
    "fuzz": ("clang++-14", "-O1 -g -DNDEBUG -fsanitize=fuzzer-no-link,address,undefined "
                           "-fno-sanitize-recover=undefined " + COMMON, "-fsanitize=address,undefined"),
    # assertions on (no NDEBUG): used by API-level harnesses where asserts are documented invariants
    "dbg": ("clang++-14", "-O1 -g -fsanitize=address,undefined -fno-sanitize-recover=undefined " + COMMON,
            "-fsanitize=address,undefined"),
}


def bdir(v):
    return os.path.join(BUILD, v)


def exe(v):
    return os.path.join(bdir(v), "opensmt")


def lib(v):
    return os.path.join(bdir(v), "lib", "libopensmt.a")


def _which(c):
    for p in os.environ.get("PATH", "").split(":"):
        if os.path.exists(os.path.join(p, c)):
            return os.path.join(p, c)
    return None


def ensure(variant, quiet=True, targets=None):
    cxx, flags, ld = VARIANTS[variant]
    if _which(cxx) is None and cxx == "clang++-14":
        cxx = "clang++"
    d = bdir(variant)
    os.makedirs(d, exist_ok=True)
    lock = open(os.path.join(BUILD, variant + ".lock"), "w")
    fcntl.flock(lock, fcntl.LOCK_EX)
    try:
        t0 = time.time()
        if not os.path.exists(os.path.join(d, "build.ninja")):
            cmd = ["cmake", "-G", "Ninja", "-S", REPO, "-B", d, "-DCMAKE_BUILD_TYPE=None",
                   "-DCMAKE_CXX_COMPILER=" + cxx, "-DCMAKE_CXX_FLAGS=" + flags,
                   "-DCMAKE_EXE_LINKER_FLAGS=" + ld, "-DPACKAGE_TESTS=OFF", "-DBUILD_SHARED_LIBS=OFF",
                   "-DBUILD_STATIC_LIBS=ON", "-DBUILD_EXECUTABLES=ON"]
            r = subprocess.run(cmd, stdout=subprocess.PIPE, stderr=subprocess.STDOUT, text=True)
            if r.returncode != 0:
                sys.stderr.write(r.stdout)
                raise SystemExit("cmake configure failed for " + variant)
        cmd = ["cmake", "--build", d, "-j", str(os.cpu_count() or 8)]
        if targets:
            cmd += ["--target"] + targets
        r = subprocess.run(cmd, stdout=subprocess.PIPE, stderr=subprocess.STDOUT, text=True)
        if r.returncode != 0:
            sys.stderr.write(r.stdout[-8000:])
            raise SystemExit("build failed for " + variant)
        if not quiet:
            print("build %s ok in %.1fs" % (variant, time.time() - t0))
    finally:
        fcntl.flock(lock, fcntl.LOCK_UN)
        lock.close()


def main():
    if len(sys.argv) >= 3 and sys.argv[1] == "ensure":
        for v in sys.argv[2:]:
            ensure(v, quiet=False)
    else:
        print(__doc__)


if __name__ == "__main__":
    main()
