"""Run the opensmt executable on a script; classify outcome."""
import os, re, subprocess, tempfile, signal
from . import build

WORK = os.path.join(build.ROOT, ".work")
os.makedirs(WORK, exist_ok=True)

SAN_ENV = {"ASAN_OPTIONS": "detect_leaks=0:abort_on_error=0:exitcode=99:allocator_may_return_null=1",
           "UBSAN_OPTIONS": "print_stacktrace=1:halt_on_error=1:exitcode=98"}


class Out:
    __slots__ = ("stdout", "stderr", "rc", "timeout", "signal")

    def __init__(self, stdout, stderr, rc, timeout):
        self.stdout, self.stderr, self.rc, self.timeout = stdout, stderr, rc, timeout
        self.signal = -rc if rc is not None and rc < 0 else None

    def crashed(self):
        if self.timeout:
            return False
        if self.signal is not None:
            return True
        if self.rc in (98, 99, 134):
            return True
        s = self.stderr
        return ("ERROR: AddressSanitizer" in s or "runtime error:" in s or "terminate called" in s
                or "ThreadSanitizer" in s)

    def brief(self):
        return {"rc": self.rc, "timeout": self.timeout, "stdout": self.stdout[-1500:], "stderr": self.stderr[-1500:]}


def run_text(text, variant="fast", timeout=10.0, pipe=False, env_extra=None, cwd=None, args=None, keep=None):
    exe = build.exe(variant)
    env = dict(os.environ)
    env.update(SAN_ENV)
    if env_extra:
        env.update(env_extra)
    path = None
    try:
        if pipe:
            cmd = [exe, "-p"] + (args or [])
            inp = text.encode() if isinstance(text, str) else text
        else:
            fd, path = tempfile.mkstemp(suffix=".smt2", dir=WORK)
            with os.fdopen(fd, "wb") as f:
                f.write(text.encode() if isinstance(text, str) else text)
            cmd = [exe] + (args or []) + [path]
            inp = None
        try:
            p = subprocess.run(cmd, input=inp, stdout=subprocess.PIPE, stderr=subprocess.PIPE, timeout=timeout,
                               env=env, cwd=cwd, stdin=None if pipe else subprocess.DEVNULL)
            return Out(p.stdout.decode("utf-8", "replace"), p.stderr.decode("utf-8", "replace"), p.returncode, False)
        except subprocess.TimeoutExpired as e:
            return Out((e.stdout or b"").decode("utf-8", "replace"), (e.stderr or b"").decode("utf-8", "replace"),
                       None, True)
    finally:
        if path and not keep:
            try:
                os.unlink(path)
            except OSError:
                pass


def split_responses(stdout):
    """Split stdout into top-level responses (one per command that prints). Comment lines (';') dropped.
    Returns list of strings. Falls back to lines when parentheses do not balance."""
    from .sexpr import tokenize, ParseError
    lines = [l for l in stdout.split("\n") if not l.startswith(";")]
    text = "\n".join(lines)
    res = []
    depth = 0
    cur = []
    i, n = 0, len(text)
    start = None
    while i < n:
        c = text[i]
        if c in " \t\r\n" and depth == 0:
            i += 1
            continue
        if start is None:
            start = i
        if c == "|":
            j = text.find("|", i + 1)
            i = (j if j >= 0 else n - 1) + 1
        elif c == '"':
            j = i + 1
            while j < n and text[j] != '"':
                j += 2 if text[j] == "\\" else 1
            i = j + 1
        elif c == "(":
            depth += 1
            i += 1
        elif c == ")":
            depth -= 1
            i += 1
        else:
            i += 1
            if depth == 0:
                while i < n and text[i] not in " \t\r\n()":
                    i += 1
        if depth == 0 and start is not None:
            res.append(text[start:i])
            start = None
    if start is not None:
        res.append(text[start:])
    return res
