"""Script generator (DESIGN §3). All randomness comes from `rnd`, a random.Random-like object;
under Hypothesis it is `st.randoms(use_true_random=False)` so every choice shrinks and replays.

A script is a JSON-able dict:
  {"options": [[key, value]...], "logic": name, "decls": [text...], "cmds": [[kind, ...]...]}
cmd kinds: ["assert", term] ["assert-named", term, name] ["push", n] ["pop", n] ["check-sat"]
           ["get-model"] ["get-value", [terms]] ["get-assignment"] ["get-unsat-core"] ["get-proof"]
           ["get-interpolants", [groups]] ["define-fun", name, params_text, sort, body] ["raw", text]
"""

# ------------------------------------------------------------------------------------------------
# logic descriptors

def _L(name, ints=False, reals=False, uf=False, arrays=False, dl=False, prop=False, models=True, itp=False):
    return dict(name=name, ints=ints, reals=reals, uf=uf, arrays=arrays, dl=dl, prop=prop,
                models=models and not arrays, itp=itp)


LOGICS = {
    "PROP": _L("QF_UF", prop=True, itp=True),
    "QF_UF": _L("QF_UF", uf=True, itp=True),
    "QF_LRA": _L("QF_LRA", reals=True, itp=True),
    "QF_LIA": _L("QF_LIA", ints=True, itp=True),
    "QF_RDL": _L("QF_RDL", reals=True, dl=True),
    "QF_IDL": _L("QF_IDL", ints=True, dl=True),
    "QF_UFLRA": _L("QF_UFLRA", reals=True, uf=True),
    "QF_UFLIA": _L("QF_UFLIA", ints=True, uf=True),
    "QF_UFRDL": _L("QF_UFRDL", reals=True, uf=True, dl=True),
    "QF_UFIDL": _L("QF_UFIDL", ints=True, uf=True, dl=True),
    "QF_AX": _L("QF_AX", arrays=True),
    "QF_ALRA": _L("QF_ALRA", reals=True, arrays=True),
    "QF_ALIA": _L("QF_ALIA", ints=True, arrays=True),
    "QF_AUFLRA": _L("QF_AUFLRA", reals=True, uf=True, arrays=True),
    "QF_AUFLIA": _L("QF_AUFLIA", ints=True, uf=True, arrays=True),
    "QF_AUFLIRA": _L("QF_AUFLIRA", ints=True, reals=True, uf=True, arrays=True),
    "ALL": _L("ALL", ints=True, reals=True, uf=True, arrays=True),
}
ALL_LOGIC_KEYS = list(LOGICS)
MODEL_LOGIC_KEYS = [k for k in LOGICS if LOGICS[k]["models"]]
INT_FREE_KEYS = [k for k in LOGICS if not LOGICS[k]["ints"]]

BIG = [2 ** 31, 2 ** 32, 2 ** 53, 2 ** 63, 2 ** 64]


def wchoice(rnd, pairs):
    """pairs: [(weight, value)]"""
    tot = sum(w for w, _ in pairs)
    x = rnd.random() * tot
    acc = 0.0
    for w, v in pairs:
        acc += w
        if x < acc:
            return v
    return pairs[-1][1]


def gen_int(rnd, big=True):
    r = rnd.random()
    if r < 0.72 or not big:
        return rnd.randint(-8, 8)
    if r < 0.92:
        v = rnd.choice(BIG) + rnd.randint(-2, 2)
        return -v if rnd.random() < 0.4 else v
    nd = rnd.randint(20, 45)
    v = rnd.randint(10 ** (nd - 1), 10 ** nd)
    return -v if rnd.random() < 0.4 else v


def int_lit(v):
    return str(v) if v >= 0 else "(- %d)" % (-v)


def real_lit(rnd, v, d=1):
    """v/d as Real literal text accepted by opensmt, z3 and cvc5."""
    neg = v < 0
    v = abs(v)
    if d == 1:
        s = "%d.0" % v
    else:
        s = "(/ %d.0 %d.0)" % (v, d)
    return "(- %s)" % s if neg else s


class Sig:
    def __init__(self):
        self.vars = {}      # sort -> [names]
        self.funs = []      # (name, [argsorts], ret)
        self.usorts = []
        self.decls = []
        self.macros = []    # (name, [(p, sort)], ret, body)

    def add_var(self, name, sort):
        self.vars.setdefault(sort, []).append(name)
        self.decls.append("(declare-fun %s () %s)" % (name, sort))

    def add_fun(self, name, args, ret):
        self.funs.append((name, args, ret))
        self.decls.append("(declare-fun %s (%s) %s)" % (name, " ".join(args), ret))

    def funs_ret(self, sort):
        return [f for f in self.funs if f[2] == sort]


def gen_sig(rnd, L, small=False):
    sig = Sig()
    nb = rnd.randint(2, 4 if small else 6)
    for i in range(nb):
        sig.add_var("b%d" % i, "Bool")
    nums = []
    if L["ints"]:
        nums.append("Int")
    if L["reals"]:
        nums.append("Real")
    for s in nums:
        pre = "i" if s == "Int" else "r"
        for i in range(rnd.randint(2, 3 if small else 5)):
            sig.add_var("%s%d" % (pre, i), s)
    if L["uf"] or (L["arrays"] and not nums):
        for i in range(rnd.randint(1, 2)):
            sig.usorts.append("U%d" % i)
            sig.decls.append("(declare-sort U%d 0)" % i)
        for u in sig.usorts:
            for i in range(rnd.randint(2, 4)):
                sig.add_var("%s_%d" % (u.lower(), i), u)
    base = nums + sig.usorts
    if L["uf"]:
        argsorts = base + ["Bool"]
        for i in range(rnd.randint(1, 4)):
            ar = rnd.randint(1, 3)
            args = [rnd.choice(argsorts) if rnd.random() < 0.8 else rnd.choice(base) for _ in range(ar)]
            if L["dl"]:
                # difference logic: keep numeric results out of UF so that DL atoms stay over variables
                ret = rnd.choice(sig.usorts + ["Bool"])
            else:
                ret = rnd.choice(base + ["Bool"])
            sig.add_fun("f%d" % i, args, ret)
    if L["arrays"]:
        for i in range(rnd.randint(1, 3)):
            idx = rnd.choice(base)
            elt = rnd.choice(base)
            if rnd.random() < 0.08:
                elt = "(Array %s %s)" % (rnd.choice(base), rnd.choice(base))
            s = "(Array %s %s)" % (idx, elt)
            for j in range(rnd.randint(1, 2)):
                sig.add_var("a%d_%d" % (i, j), s)
    return sig


def arr_parts(sort):
    from .sexpr import parse_one, to_str
    e = parse_one(sort)
    return to_str(e[1]), to_str(e[2])


class TermGen:
    def __init__(self, rnd, L, sig, big=True, let=True):
        self.rnd, self.L, self.sig = rnd, L, sig
        self.big = big
        self.use_let = let
        self.bound = []  # stack of dict name->sort for let-bound variables
        self.letc = 0
        self.numpool = {}  # sort -> compound numeric terms generated so far (re-used to share subterms across assertions)

    # ---- numerals
    def const(self, sort):
        rnd = self.rnd
        if sort == "Int":
            return int_lit(gen_int(rnd, self.big))
        v = gen_int(rnd, self.big)
        if rnd.random() < 0.25:
            d = rnd.choice([2, 3, 4, 5, 7, 10] + ([2 ** 31 + 1, 2 ** 32, 2 ** 63] if self.big else []))
            return real_lit(rnd, v, d)
        return real_lit(rnd, v)

    def nzconst_val(self):
        v = 0
        while v == 0:
            v = gen_int(self.rnd, self.big)
        return v

    def var(self, sort):
        cands = list(self.sig.vars.get(sort, []))
        for fr in self.bound:
            cands += [n for n, s in fr.items() if s == sort]
        if not cands:
            return None
        return self.rnd.choice(cands)

    # ---- terms by sort
    def term(self, sort, depth):
        if sort == "Bool":
            return self.boolean(depth)
        if sort in ("Int", "Real"):
            return self.num(sort, depth)
        if sort.startswith("(Array"):
            return self.array(sort, depth)
        return self.uterm(sort, depth)

    def app(self, f, depth):
        return "(%s %s)" % (f[0], " ".join(self.term(a, depth - 1) for a in f[1]))

    def num(self, sort, depth):
        rnd, L = self.rnd, self.L
        if L["dl"]:
            v = self.var(sort)
            return v if v is not None else self.const(sort)
        if depth <= 0:
            r = rnd.random()
            v = self.var(sort)
            if v is None or r < 0.25:
                return self.const(sort)
            return v
        pool = self.numpool.setdefault(sort, [])
        if pool and not self.bound and rnd.random() < 0.16:
            return rnd.choice(pool)
        t = self._num(sort, depth)
        if not self.bound and t.startswith("(") and len(pool) < 12 and len(t) < 120:
            pool.append(t)
        return t

    def _num(self, sort, depth):
        rnd, L = self.rnd, self.L
        ch = [(3, "var"), (1, "const"), (3, "plus"), (2, "minus"), (1, "neg"), (3, "scale"), (1.2, "ite")]
        if self.sig.funs_ret(sort):
            ch.append((2.5, "app"))
        if L["arrays"] and self.arrays_with_elt(sort):
            ch.append((2, "select"))
        if sort == "Real":
            ch.append((0.8, "rdiv"))
        else:
            ch.append((2.4, "divmod"))
        k = wchoice(rnd, ch)
        if k == "var":
            return self.num(sort, 0)
        if k == "const":
            return self.const(sort)
        if k == "plus":
            n = rnd.randint(2, 4)
            return "(+ %s)" % " ".join(self.num(sort, depth - 1) for _ in range(n))
        if k == "minus":
            n = 2 if rnd.random() < 0.8 else 3
            return "(- %s)" % " ".join(self.num(sort, depth - 1) for _ in range(n))
        if k == "neg":
            return "(- %s)" % self.num(sort, depth - 1)
        if k == "scale":
            c = self.const(sort)
            t = self.num(sort, depth - 1)
            return "(* %s %s)" % ((c, t) if rnd.random() < 0.6 else (t, c))
        if k == "ite":
            return "(ite %s %s %s)" % (self.boolean(depth - 1), self.num(sort, depth - 1), self.num(sort, depth - 1))
        if k == "app":
            return self.app(rnd.choice(self.sig.funs_ret(sort)), depth)
        if k == "select":
            a = rnd.choice(self.arrays_with_elt(sort))
            i, _ = arr_parts(a)
            return "(select %s %s)" % (self.array(a, depth - 1), self.term(i, depth - 1))
        if k == "rdiv":
            c = self.nzconst_val()
            return "(/ %s %s)" % (self.num(sort, depth - 1), real_lit(rnd, c))
        if k == "divmod":
            c = self.nzconst_val()
            return "(%s %s %s)" % (rnd.choice(["div", "mod"]), self.num(sort, depth - 1), int_lit(c))
        raise AssertionError(k)

    def array_sorts(self):
        return [s for s in self.sig.vars if s.startswith("(Array")]

    def arrays_with_elt(self, sort):
        return [s for s in self.array_sorts() if arr_parts(s)[1] == sort]

    def array(self, sort, depth):
        rnd = self.rnd
        i, e = arr_parts(sort)
        v = self.var(sort)
        if depth <= 0 or (v is not None and rnd.random() < 0.35):
            if v is not None:
                return v
        if v is None:
            # nested array element sort without variable: build from select on outer arrays
            outs = self.arrays_with_elt(sort)
            if outs and depth > -3:
                a = rnd.choice(outs)
                oi, _ = arr_parts(a)
                return "(select %s %s)" % (self.array(a, depth - 1), self.term(oi, min(depth - 1, 0)))
            raise KeyError("no term of sort " + sort)
        if rnd.random() < 0.8:
            return "(store %s %s %s)" % (self.array(sort, depth - 1), self.term(i, depth - 1), self.term(e, depth - 1))
        return "(ite %s %s %s)" % (self.boolean(depth - 1), self.array(sort, depth - 1), self.array(sort, depth - 1))

    def uterm(self, sort, depth):
        rnd = self.rnd
        v = self.var(sort)
        if depth <= 0:
            return v
        ch = [(3, "var"), (1, "ite")]
        if self.sig.funs_ret(sort):
            ch.append((4, "app"))
        if self.L["arrays"] and self.arrays_with_elt(sort):
            ch.append((3, "select"))
        k = wchoice(rnd, ch)
        if k == "var":
            return v
        if k == "ite":
            return "(ite %s %s %s)" % (self.boolean(depth - 1), self.uterm(sort, depth - 1), self.uterm(sort, depth - 1))
        if k == "app":
            return self.app(rnd.choice(self.sig.funs_ret(sort)), depth)
        a = rnd.choice(self.arrays_with_elt(sort))
        i, _ = arr_parts(a)
        return "(select %s %s)" % (self.array(a, depth - 1), self.term(i, depth - 1))

    # ---- atoms
    def nonbool_sorts(self):
        return [s for s in self.sig.vars if s != "Bool"]

    def dl_atom(self, sort):
        rnd = self.rnd
        x, y = self.var(sort), self.var(sort)
        op = rnd.choice(["<=", "<", ">=", ">", "=", "distinct"])
        c = self.const(sort) if sort == "Real" and rnd.random() < 0.3 else \
            (int_lit(gen_int(rnd, self.big)) if sort == "Int" else real_lit(rnd, gen_int(rnd, self.big)))
        shape = rnd.random()
        if shape < 0.5:
            return "(%s (- %s %s) %s)" % (op, x, y, c)
        if shape < 0.65:
            return "(%s %s %s)" % (op, x, y)
        if shape < 0.8:
            return "(%s %s %s)" % (op, x, c)
        if shape < 0.9:
            return "(%s (+ %s %s) %s)" % (op, x, c, y)
        return "(%s %s (- %s %s))" % (op, c, x, y)

    def atom(self, depth):
        """A theory atom (or a Bool variable when the logic has no theory)."""
        rnd, L = self.rnd, self.L
        sorts = self.nonbool_sorts()
        preds = self.sig.funs_ret("Bool")
        if not sorts and not preds:
            return self.var("Bool")
        if preds and rnd.random() < 0.2:
            return self.app(rnd.choice(preds), depth + 1)
        if not sorts:
            return self.var("Bool")
        sort = rnd.choice(sorts)
        if sort in ("Int", "Real"):
            if L["dl"]:
                return self.dl_atom(sort)
            r = rnd.random()
            if r < 0.75:
                op = rnd.choice(["<=", "<", ">=", ">", "=", "<=", ">="])
                n = 2 if rnd.random() < 0.9 else 3
                return "(%s %s)" % (op, " ".join(self.num(sort, depth) for _ in range(n)))
            if r < 0.9:
                return "(= %s %s)" % (self.num(sort, depth), self.num(sort, depth))
            n = rnd.randint(2, 4)
            return "(distinct %s)" % " ".join(self.num(sort, depth) for _ in range(n))
        # U / array sort
        if rnd.random() < 0.8:
            n = 2 if rnd.random() < 0.9 else 3
            return "(= %s)" % " ".join(self.term(sort, depth) for _ in range(n))
        n = rnd.randint(2, 5 if not sort.startswith("(Array") else 3)
        return "(distinct %s)" % " ".join(self.term(sort, depth) for _ in range(n))

    # ---- Boolean structure
    def boolean(self, depth, pool=None):
        rnd = self.rnd
        if depth <= 0:
            if pool:
                return rnd.choice(pool)
            r = rnd.random()
            if r < 0.04:
                return rnd.choice(["true", "false"])
            if r < 0.5:
                return self.var("Bool")
            return self.atom(0)
        ch = [(3, "and"), (3, "or"), (2.5, "not"), (1, "=>"), (0.8, "xor"), (1, "="), (1, "ite"), (2.5, "leaf"),
              (0.4, "distinct")]
        if self.use_let:
            ch.append((0.6, "let"))
        if self.sig.macros:
            ch.append((1, "macro"))
        k = wchoice(rnd, ch)
        sub = lambda: self.boolean(depth - 1, pool)
        if k in ("and", "or"):
            n = rnd.randint(2, 4)
            return "(%s %s)" % (k, " ".join(sub() for _ in range(n)))
        if k == "not":
            return "(not %s)" % sub()
        if k in ("=>", "xor", "=", "distinct"):
            return "(%s %s %s)" % (k, sub(), sub())
        if k == "ite":
            return "(ite %s %s %s)" % (sub(), sub(), sub())
        if k == "leaf":
            return self.boolean(0, pool)
        if k == "let":
            return self.let(depth, pool)
        if k == "macro":
            m = rnd.choice(self.sig.macros)
            if not m[1]:
                return m[0] if m[2] == "Bool" else self.boolean(0, pool)
            if m[2] != "Bool":
                return self.boolean(0, pool)
            return "(%s %s)" % (m[0], " ".join(self.term(s, min(depth - 1, 1)) for _, s in m[1]))
        raise AssertionError(k)

    def let(self, depth, pool):
        rnd = self.rnd
        nb = rnd.randint(1, 2)
        binds = {}
        parts = []
        sorts = ["Bool"] + [s for s in self.nonbool_sorts() if not s.startswith("(Array")]
        for _ in range(nb):
            self.letc += 1
            # occasionally shadow a declared variable
            s = rnd.choice(sorts)
            if rnd.random() < 0.15 and self.sig.vars.get(s):
                name = rnd.choice(self.sig.vars[s])
                if name in binds:
                    continue
            else:
                name = "l%d" % self.letc
            t = self.term(s, min(depth - 1, 2)) if s != "Bool" else self.boolean(min(depth - 1, 1), pool)
            binds[name] = s
            parts.append("(%s %s)" % (name, t))
        if not parts:
            return self.boolean(depth - 1, pool)
        self.bound.append(binds)
        try:
            body = self.boolean(depth - 1, None if pool is None else pool + [n for n, s in binds.items() if s == "Bool"])
        finally:
            self.bound.pop()
        return "(let (%s) %s)" % (" ".join(parts), body)


# ------------------------------------------------------------------------------------------------
# planted shapes: families where the interesting verdict sits on a knife edge

def planted(rnd, L, sig, tg):
    out = []
    kinds = []
    nums = [s for s in ("Int", "Real") if sig.vars.get(s)]
    if nums:
        kinds += ["cycle", "cycle"]
        if not L["dl"]:
            kinds += ["box"]
            if "Int" in nums:
                kinds += ["parity", "divmod"]
    usorts = [u for u in sig.usorts if sig.vars.get(u)]
    if usorts:
        kinds += ["eqchain"]
        if any(f for f in sig.funs if f[1] == [f[2]] and f[2] in usorts):
            kinds += ["congr"]
    if L["arrays"] and tg.array_sorts():
        kinds += ["row", "ext", "arrweb", "arrweb"]
    if L["uf"] and nums and not L["dl"]:
        kinds += ["iface"]
    if L["uf"] and nums and any(f for f in sig.funs if len(f[1]) == 1 and f[1][0] in nums):
        kinds += ["ufargs", "ufargs"]
    if not kinds:
        return out
    k = rnd.choice(kinds)
    if k == "cycle":
        s = rnd.choice(nums)
        vs = list(sig.vars[s])
        rnd.shuffle(vs)
        n = rnd.randint(2, min(4, len(vs)))
        vs = vs[:n]
        base = rnd.choice([0, 0, 1, 2 ** 31, 2 ** 53, 2 ** 63, 10 ** 23]) if tg.big else rnd.choice([0, 1, 5])
        ws = [rnd.randint(-3, 3) + (base if i == 0 else (-base if i == 1 else 0)) for i in range(n)]
        tot = rnd.choice([-1, 0, 1])
        ws[-1] += tot - sum(ws)
        lit = (lambda v: int_lit(v)) if s == "Int" else (lambda v: real_lit(rnd, v))
        for i in range(n):
            x, y = vs[i], vs[(i + 1) % n]
            strict = rnd.random() < 0.25
            form = rnd.random()
            if form < 0.6:
                out.append("(%s (- %s %s) %s)" % ("<" if strict else "<=", x, y, lit(ws[i])))
            elif form < 0.8:
                out.append("(%s (- %s %s) %s)" % (">" if strict else ">=", y, x, lit(-ws[i])))
            else:
                out.append("(not (%s (- %s %s) %s))" % ("<=" if strict else "<", y, x, lit(-ws[i])))
    elif k == "box":
        s = rnd.choice(nums)
        vs = sig.vars[s]
        x, y = rnd.choice(vs), rnd.choice(vs)
        lit = (lambda v: int_lit(v)) if s == "Int" else (lambda v: real_lit(rnd, v))
        a, b = rnd.randint(-4, 4), rnd.randint(-4, 4)
        c = rnd.choice([2, 3, 4, 5])
        out.append("(<= %s %s)" % (lit(a), x))
        out.append("(<= %s %s)" % (x, lit(a + rnd.randint(0, 2))))
        out.append("(%s (+ (* %s %s) %s) %s)" % (rnd.choice(["<", "<=", ">", ">=", "="]), lit(c), x, y, lit(b)))
        out.append("(%s %s %s)" % (rnd.choice(["<", "<=", ">", ">="]), y, lit(rnd.randint(-6, 6))))
    elif k == "parity":
        vs = sig.vars["Int"]
        x, y = rnd.choice(vs), rnd.choice(vs)
        a, b = rnd.choice([2, 3, 4, 6]), rnd.choice([2, 3, 4, 6, 9])
        out.append("(= (+ (* %d %s) (* %d %s)) %s)" % (a, x, b, y, int_lit(rnd.randint(-9, 9))))
        if rnd.random() < 0.6:
            out.append("(<= %s %s)" % (int_lit(rnd.randint(-5, 0)), x))
            out.append("(<= %s %s)" % (x, int_lit(rnd.randint(0, 5))))
    elif k == "divmod":
        vs = sig.vars["Int"]
        x, y = rnd.choice(vs), rnd.choice(vs)
        c = rnd.choice([2, 3, -2, -3, 5, 2 ** 31]) if tg.big else rnd.choice([2, 3, -2, -3, 5])
        out.append("(= %s (%s %s %s))" % (y, rnd.choice(["div", "mod"]), x, int_lit(c)))
        out.append("(%s %s %s)" % (rnd.choice(["=", "<=", ">="]), x, int_lit(rnd.randint(-9, 9))))
        out.append("(%s %s %s)" % (rnd.choice(["=", "<", ">", "distinct"]), y, int_lit(rnd.randint(-4, 4))))
    elif k == "eqchain":
        u = rnd.choice(usorts)
        vs = list(sig.vars[u])
        n = len(vs)
        for i in range(n - 1):
            out.append("(= %s %s)" % (vs[i], vs[i + 1]))
        out.append("(%s %s %s)" % (rnd.choice(["distinct", "="]), vs[0], vs[-1]))
        if rnd.random() < 0.5 and out:
            out.pop(rnd.randint(0, len(out) - 1))
    elif k == "congr":
        f = rnd.choice([f for f in sig.funs if f[1] == [f[2]] and f[2] in usorts])
        vs = sig.vars[f[2]]
        x, y = rnd.choice(vs), rnd.choice(vs)
        out.append("(= %s %s)" % (x, y))
        out.append("(%s (%s (%s %s)) (%s (%s %s)))" % (rnd.choice(["distinct", "="]), f[0], f[0], x, f[0], f[0], y))
    elif k == "row":
        a = rnd.choice(tg.array_sorts())
        i, e = arr_parts(a)
        av = tg.var(a)
        i1, i2 = tg.term(i, 0), tg.term(i, 0)
        e1 = tg.term(e, 0)
        out.append("(%s (select (store %s %s %s) %s) %s)" % (rnd.choice(["distinct", "="]), av, i1, e1, i2, e1))
        out.append("(%s %s %s)" % (rnd.choice(["=", "distinct"]), i1, i2))
    elif k == "arrweb":
        # a web of selects/stores over few arrays and indices with index equalities that are not top-level units:
        # read-over-weak-equivalence reasoning, conflicts and lemmas of the array solver
        a = rnd.choice(tg.array_sorts())
        isort, esort = arr_parts(a)
        arrs = list(sig.vars[a])
        idx = list(sig.vars.get(isort, []))
        if len(idx) < 2:
            idx = idx + [tg.term(isort, 1) for _ in range(2)]
        els = list(sig.vars.get(esort, [])) or [tg.term(esort, 0)]
        bs = sig.vars.get("Bool", ["true"])

        def ix():
            return rnd.choice(idx)

        def ar(d=2):
            x = rnd.choice(arrs)
            while d > 0 and rnd.random() < 0.5:
                x = "(store %s %s %s)" % (x, ix(), rnd.choice(els))
                d -= 1
            return x
        for _ in range(rnd.randint(3, 7)):
            r = rnd.random()
            if r < 0.25:
                i, j = ix(), ix()
                b = rnd.choice(bs)
                out.append("(or (= %s %s) %s)" % (i, j, b))
                if rnd.random() < 0.6:
                    out.append("(or (= %s %s) (not %s))" % (i, j, b))
            elif r < 0.4:
                out.append("(or (= %s %s) (= %s %s))" % (ix(), ix(), ix(), ix()))
            elif r < 0.5:
                out.append("(distinct %s %s)" % (ix(), ix()))
            elif r < 0.7:
                out.append("(= (select %s %s) %s)" % (ar(1), ix(), rnd.choice(els)))
            elif r < 0.9:
                out.append("(not (= (select %s %s) (select %s %s)))" % (ar(), ix(), ar(), ix()))
            else:
                if len(arrs) >= 2:
                    x, y = rnd.sample(arrs, 2)
                    out.append("(= %s (store %s %s %s))" % (x, y, ix(), rnd.choice(els)))
    elif k == "ext":
        a = rnd.choice(tg.array_sorts())
        i, e = arr_parts(a)
        av, bv = tg.var(a), tg.var(a)
        i1 = tg.term(i, 0)
        e1 = tg.term(e, 0)
        out.append("(distinct %s %s)" % (av, bv) if rnd.random() < 0.6 else "(= %s %s)" % (av, bv))
        out.append("(= (store %s %s %s) (store %s %s %s))" % (av, i1, e1, bv, i1, e1))
        if rnd.random() < 0.5:
            out.append("(= (select %s %s) (select %s %s))" % (av, i1, bv, i1))
    elif k == "ufargs":
        # numeric variables that occur only as UF arguments next to variables bounded by arithmetic
        f = rnd.choice([f for f in sig.funs if len(f[1]) == 1 and f[1][0] in nums])
        s = f[1][0]
        vs = list(sig.vars[s])
        rnd.shuffle(vs)
        lit = (lambda v: int_lit(v)) if s == "Int" else (lambda v: real_lit(rnd, v))
        n = rnd.randint(2, len(vs))
        for i, v in enumerate(vs[:n]):
            if rnd.random() < 0.6:
                out.append("(%s %s %s)" % (rnd.choice([">=", "<=", "="]), v, lit(rnd.randint(-1, 4))))
        apps = ["(%s %s)" % (f[0], v) for v in vs[:n]]
        if f[2] == "Bool":
            out.append("(xor %s %s)" % (apps[0], apps[1]))
        else:
            out.append("(distinct %s)" % " ".join(apps))
    elif k == "iface":
        s = rnd.choice(nums)
        fs = [f for f in sig.funs if s in f[1]]
        vs = sig.vars[s]
        x, y = rnd.choice(vs), rnd.choice(vs)
        out.append("(<= %s %s)" % (x, y))
        out.append("(<= %s %s)" % (y, x))
        if fs:
            f = rnd.choice(fs)

            def call(v):
                args = []
                for a in f[1]:
                    args.append(v if a == s else tg.term(a, 0))
                return "(%s %s)" % (f[0], " ".join(args))
            # same non-s arguments on both sides
            st = rnd.getstate() if hasattr(rnd, "getstate") and False else None
            args = [None if a == s else tg.term(a, 0) for a in f[1]]
            cx = "(%s %s)" % (f[0], " ".join(x if a is None else a for a in args))
            cy = "(%s %s)" % (f[0], " ".join(y if a is None else a for a in args))
            out.append("(%s %s %s)" % ("distinct" if f[2] != "Bool" else "xor", cx, cy))
    return out


# ------------------------------------------------------------------------------------------------
# options

ENGINES = ["default", "default", "default", "lookahead", "picky", "ghost"]


def gen_options(rnd, L, tracking=None, engines=True, incremental=None, allow_nonincr=True):
    """tracking: None -> random subset; or a set of names among models, assignments, cores, proofs, interpolants."""
    o = []
    if rnd.random() < 0.6:
        o.append([":random-seed", str(rnd.randint(1, 1000))])
    eng = rnd.choice(ENGINES) if engines else "default"
    if eng == "lookahead":
        o.append([":pure-lookahead", "true"])
        if rnd.random() < 0.3:
            o.append([":lookahead-score-deep", "true"])
    elif eng == "picky":
        o.append([":picky", "true"])
        if rnd.random() < 0.4:
            o.append([":picky_w", str(rnd.choice([1, 2, 5, 10]))])
    elif eng == "ghost":
        o.append([":ghost-vars", "true"])
    if tracking is None:
        tracking = set()
        if rnd.random() < 0.35:
            tracking.add("models")
        if rnd.random() < 0.12:
            tracking.add("assignments")
        if rnd.random() < 0.15:
            tracking.add("cores")
        if rnd.random() < 0.12:
            tracking.add("proofs")
        if rnd.random() < 0.1 and L["itp"]:
            tracking.add("interpolants")
    names = {"models": ":produce-models", "assignments": ":produce-assignments", "cores": ":produce-unsat-cores",
             "proofs": ":produce-proofs", "interpolants": ":produce-interpolants"}
    for t in sorted(tracking):
        o.append([names[t], "true"])
    if incremental is None:
        incremental = not (allow_nonincr and rnd.random() < 0.2)
    if not incremental:
        o.append([":incremental", "false"])
        for k, vals in ((":elim", ["true", "false"]), (":asymm", ["true", "false"]), (":rcheck", ["true", "false"]),
                        (":grow", ["0", "1", "4"]), (":cl-lim", ["0", "2", "20"])):
            if rnd.random() < 0.25:
                o.append([k, rnd.choice(vals)])
    misc = [(":do-substitutions", ["false", "true"]), (":luby-restart", ["true", "false"]),
            (":restart-first", ["1", "2", "10", "100"]), (":restart-inc", ["1.1", "1.5", "2", "3"]),
            (":ccmin-mode", ["0", "1", "2"]), (":rnd-pol", ["true", "false"]), (":rnd-init-act", ["true", "false"]),
            (":random-var-freq", ["0", "0.02", "0.5"]), (":global-declarations", ["true", "false"])]
    for k, vals in misc:
        if rnd.random() < 0.12:
            o.append([k, rnd.choice(vals)])
    return o, eng, tracking, incremental


def opt_get(script, key, default=None):
    v = default
    for k, x in script["options"]:
        if k == key:
            v = x
    return v


# ------------------------------------------------------------------------------------------------
# scripts

def gen_assertions(rnd, L, sig, tg, depth, n_assert, planted_p=0.55, dense_p=0.22, hard=False):
    """Draw an atom pool and build assertions over it (plus planted shapes)."""
    pool = []
    npool = rnd.randint(3, 10)
    for _ in range(npool):
        r = rnd.random()
        if r < 0.3 and sig.vars.get("Bool"):
            pool.append(tg.var("Bool"))
        else:
            pool.append(tg.atom(rnd.randint(0, max(0, depth - 2))))
    out = []
    if rnd.random() < planted_p:
        out += planted(rnd, L, sig, tg)
        while rnd.random() < planted_p * 0.6 and len(out) < 14:
            out += planted(rnd, L, sig, tg)
    nums = [x for x in ("Int", "Real") if len(sig.vars.get(x, [])) >= 3]
    if nums and rnd.random() < (0.5 if L["dl"] else 0.1):
        # dense system of small difference constraints in clauses: many alternative negative-cycle explanations,
        # propagation chains and shortest-path updates in the difference-logic (and simplex) solvers
        srt = rnd.choice(nums)
        vs = sig.vars[srt]
        lit = (lambda v: int_lit(v)) if srt == "Int" else (lambda v: real_lit(rnd, v))
        dense = []
        if rnd.random() < 0.45:
            # clauses of 2-3 difference literals only (no unit constraints), 4-7 clauses per variable, constants in [-3,3]:
            # long propagation chains with several alternative paths between the same two vertices, so that explanations
            # of deduced bounds have to pick the right path (25 % of such instances exposed seeded/C05 to C11)
            vs = vs[:7]
            for _ in range(int(len(vs) * (4 + 3 * rnd.random()))):
                lits = []
                for _ in range(rnd.choice([2, 2, 3])):
                    x, y = rnd.sample(vs, 2)
                    a = "(%s (- %s %s) %s)" % (rnd.choice(["<=", "<", ">=", ">"]), x, y, lit(rnd.randint(-3, 3)))
                    lits.append(a if rnd.random() < 0.7 else "(not %s)" % a)
                dense.append("(or %s)" % " ".join(lits))
            return dense, pool
        # near the sat/unsat boundary of such systems (about 1.2-3 clauses per variable); far above it everything is unsat
        for _ in range(rnd.randint(len(vs) + 1, 3 * len(vs) + 2) if rnd.random() < 0.8 else rnd.randint(8, 40)):
            lits = []
            for _ in range(1 if rnd.random() < 0.35 else 2):
                x, y = rnd.sample(vs, 2)
                a = "(%s (- %s %s) %s)" % (rnd.choice(["<=", "<", ">=", ">"]), x, y, lit(rnd.randint(-4, 4)))
                lits.append(a if rnd.random() < 0.7 else "(not %s)" % a)
            dense.append(lits[0] if len(lits) == 1 else "(or %s)" % " ".join(lits))
        out = dense + out[:rnd.randint(0, 2)]
        rnd.shuffle(out)
        return out, pool
    if tg.nonbool_sorts() and rnd.random() < dense_p:
        # random clauses over a pool of theory atoms (k-SAT over atoms): real search with theory conflicts,
        # propagations and explanations instead of level-0 refutations
        atoms = [tg.atom(rnd.randint(0, 1)) for _ in range(rnd.randint(5, 12))]
        nsorts = [x for x in ("Int", "Real") if len(sig.vars.get(x, [])) >= 2]
        if nsorts and rnd.random() < 0.6:
            # several bounds on the same linear terms: theory propagation between them enters the implication graph
            srt = rnd.choice(nsorts)
            vs = sig.vars[srt]
            lit = (lambda v: int_lit(v)) if srt == "Int" else (lambda v: real_lit(rnd, v))
            bases = []
            for _ in range(rnd.randint(2, 5)):
                x, y = rnd.sample(vs, 2)
                r = rnd.random()
                if r < 0.45 or L["dl"]:
                    bases.append("(- %s %s)" % (x, y))
                elif r < 0.6:
                    bases.append(x)
                else:
                    z = rnd.choice(vs)
                    bases.append("(+ (* %s %s) %s (* %s %s))" % (lit(rnd.randint(1, 3)), x, y, lit(rnd.choice([-2, -1, 1, 2])), z))
            atoms = atoms[:rnd.randint(0, 4)]
            for _ in range(rnd.randint(6, 12) * (2 if hard else 1)):
                atoms.append("(%s %s %s)" % (rnd.choice(["<=", "<", ">=", ">"]), rnd.choice(bases), lit(rnd.randint(-4, 4))))
        elif hard:
            atoms += [tg.atom(rnd.randint(0, 1)) for _ in range(rnd.randint(4, 10))]
        if hard:
            atoms = list(dict.fromkeys(atoms))
            dense = []
            for _ in range(int(len(atoms) * (3.6 + rnd.random()))):
                lits = [a if rnd.random() < 0.5 else "(not %s)" % a for a in rnd.sample(atoms, min(3, len(atoms)))]
                dense.append("(or %s)" % " ".join(lits))
            return dense, pool + atoms
        dense = []
        for _ in range(rnd.randint(2 * len(atoms), int(4.5 * len(atoms)))):
            k = 3 if rnd.random() < 0.75 else 2
            lits = []
            for a in rnd.sample(atoms, min(k, len(atoms))):
                lits.append(a if rnd.random() < 0.5 else "(not %s)" % a)
            dense.append("(or %s)" % " ".join(lits))
        out = dense + out[:rnd.randint(0, 3)]
        rnd.shuffle(out)
        return out, pool + atoms
    if out and rnd.random() < 0.18:
        # planted-only script: the shape is not drowned in unrelated constraints
        rnd.shuffle(out)
        return out, pool
    while len(out) < n_assert:
        r = rnd.random()
        if r < 0.45:
            # clause / cube over the pool
            k = rnd.randint(1, 3)
            lits = []
            for _ in range(k):
                a = rnd.choice(pool)
                lits.append(a if rnd.random() < 0.5 else "(not %s)" % a)
            out.append(lits[0] if k == 1 else "(or %s)" % " ".join(lits))
        elif r < 0.85:
            out.append(tg.boolean(rnd.randint(1, depth), pool))
        else:
            out.append(tg.boolean(rnd.randint(1, depth)))
    rnd.shuffle(out)
    return out, pool


def gen_macros(rnd, L, sig, tg):
    n = rnd.randint(0, 2)
    for i in range(n):
        sorts = ["Bool"] + [s for s in tg.nonbool_sorts() if not s.startswith("(Array")]
        ar = rnd.randint(0, 2)
        params = [("p%d" % j, rnd.choice(sorts)) for j in range(ar)]
        ret = "Bool" if rnd.random() < 0.7 or L["dl"] else rnd.choice(sorts)
        tg.bound.append(dict(params))
        try:
            body = tg.term(ret, 2)
        finally:
            tg.bound.pop()
        name = "m%d" % i
        sig.macros.append((name, params, ret, body))


def macro_cmds(sig):
    return [["define-fun", m[0], " ".join("(%s %s)" % p for p in m[1]), m[2], m[3]] for m in sig.macros]


def gen_script(rnd, tier="quick", logic_keys=None, tracking=None, engines=True, incremental=None,
               history=True, queries=True, named=0.0, min_checks=1, big=True, allow_nonincr=True, depth=None,
               max_hist=None, planted_p=0.55, hist_p=0.6, hist_w=(0.42, 0.18, 0.15), dense_p=0.22, hard=False):
    """General-purpose script of the C01 input space."""
    lk = rnd.choice(logic_keys or ALL_LOGIC_KEYS)
    L = LOGICS[lk]
    sig = gen_sig(rnd, L)
    tg = TermGen(rnd, L, sig, big=big)
    opts, eng, tracking, incr = gen_options(rnd, L, tracking, engines, incremental, allow_nonincr)
    if "interpolants" in tracking or (("cores" in tracking) and named == 0.0):
        named = 1.0 if "interpolants" in tracking else 0.7
    if depth is None:
        depth = rnd.randint(1, 3 if tier == "quick" else 4)
    if rnd.random() < 0.4:
        gen_macros(rnd, L, sig, tg)
    cmds = macro_cmds(sig)
    nas = rnd.randint(2, 8 if tier == "quick" else 12)
    asserts, pool = gen_assertions(rnd, L, sig, tg, depth, nas, planted_p, dense_p, hard)
    namec = [0]

    def mk_assert(t):
        if named and rnd.random() < named:
            namec[0] += 1
            return ["assert-named", t, "n%d" % namec[0]]
        return ["assert", t]

    hist = []
    level = 0
    use_hist = history and incr and rnd.random() < hist_p
    if not use_hist:
        if not incr and rnd.random() < 0.35 and len(asserts) > 2:
            # non-incremental but several check-sats separated by further asserts
            k = rnd.randint(1, len(asserts) - 1)
            hist = [mk_assert(t) for t in asserts[:k]] + [["check-sat"]] + [mk_assert(t) for t in asserts[k:]] + [["check-sat"]]
        else:
            hist = [mk_assert(t) for t in asserts] + [["check-sat"]]
    else:
        maxh = max_hist or (12 if tier == "quick" else 30)
        # known finding: the lookahead engines answer wrongly at assertion level >= 3 -> excluded by construction
        hist = gen_history(rnd, asserts, pool, tg, depth, mk_assert, rnd.randint(4, maxh), hist_w,
                           2 if eng in ("lookahead", "picky") else 4)
    cmds += hist
    nchk = sum(1 for c in cmds if c[0] == "check-sat")
    if nchk < min_checks:
        cmds.append(["check-sat"])
    script = {"options": opts, "logic": L["name"], "lk": lk, "decls": list(sig.decls), "cmds": cmds}
    if queries:
        add_queries(rnd, script, L, tg, tracking)
    return script, sig, tg


def add_queries(rnd, script, L, tg, tracking, p=0.5):
    """Insert get-* queries after check-sats, matching the tracking options (a query in the wrong state only yields an
    error response, which is legal)."""
    out = []
    for idx, c, active in list(stack_walk(script)):
        out.append(c)
        if c[0] != "check-sat" or rnd.random() > p:
            continue
        kinds = []
        if "models" in tracking and L["models"]:
            kinds += ["get-model", "get-value", "get-value"]
        if "assignments" in tracking:
            kinds += ["get-assignment"]
        if "cores" in tracking:
            kinds += ["get-unsat-core"]
        if "proofs" in tracking:
            kinds += ["get-proof"]
        names = [n for _, n in active if n]
        if "interpolants" in tracking and len(names) >= 2:
            kinds += ["get-interpolants"]
        if not kinds:
            continue
        for _ in range(rnd.randint(1, 2)):
            k = rnd.choice(kinds)
            if k == "get-value":
                sorts = ["Bool"] + [s for s in tg.nonbool_sorts() if not s.startswith("(Array")]
                terms = [tg.term(rnd.choice(sorts), rnd.randint(0, 2)) for _ in range(rnd.randint(1, 4))]
                out.append(["get-value", terms])
            elif k == "get-interpolants":
                ns = list(names)
                rnd.shuffle(ns)
                cut = rnd.randint(1, len(ns) - 1)

                def grp(g):
                    return g[0] if len(g) == 1 else "(and %s)" % " ".join(g)
                out.append(["get-interpolants", [grp(ns[:cut]), grp(ns[cut:])]])
            else:
                out.append([k])
    script["cmds"] = out


def negate(t):
    return t[5:-1] if t.startswith("(not ") else "(not %s)" % t


def gen_history(rnd, asserts, pool, tg, depth, mk_assert, steps, w, maxd=4):
    """History of assert / push / pop / check-sat with the shapes C04 names: repeated checks, re-asserted popped
    formulas, unsat levels that are popped and re-entered (a 'contradict' step asserts the negation of an active
    assertion), nested levels with pop to an intermediate level followed by a check."""
    hist = []
    live = [[]]
    popped = []
    pending = list(asserts)
    last = None
    pa, pu, po = w
    i = 0
    if rnd.random() < 0.4:
        return gen_churn(rnd, asserts, pool, tg, depth, mk_assert, steps, maxd)
    while i < steps:
        i += 1
        r = rnd.random()
        d = len(live) - 1
        # after a check-sat inside a level: often pop (partially) and check again
        if last == "check-sat" and d >= 1 and r < 0.35:
            n = 1 if (d < 2 or rnd.random() < 0.7) else rnd.randint(1, d)
            hist.append(["pop", n])
            for _ in range(n):
                popped += live.pop()
            if rnd.random() < 0.7:
                hist.append(["check-sat"])
                last = "check-sat"
            else:
                last = "pop"
            continue
        if last == "push" and r < 0.8:
            r = 0.0  # assert right after push
        if r < pa:
            act = [t for lv in live for t in lv]
            q = rnd.random()
            if q < 0.09 and d >= 1:
                # a level that preprocessing alone reduces to false
                a = rnd.choice(pool) if pool else "true"
                t = rnd.choice(["false", "(and %s (not %s))" % (a, a), "(not (or %s (not %s)))" % (a, a),
                                "(distinct %s %s)" % (a, a)])
                hist.append(mk_assert(t))
                live[-1].append(t)
                last = "assert"
                if rnd.random() < 0.7:
                    hist.append(["check-sat"])
                    last = "check-sat"
                continue
            if q < 0.2 and act and (d >= 1 or rnd.random() < 0.15):
                t = negate(rnd.choice(act))          # contradict: makes the current level unsat
            elif q < 0.38 and popped:
                t = rnd.choice(popped)               # re-assert a popped formula
            elif pending:
                t = pending.pop()
            else:
                t = tg.boolean(rnd.randint(1, depth), pool)
            hist.append(mk_assert(t))
            live[-1].append(t)
            last = "assert"
        elif r < pa + pu and d < maxd:
            n = 1 if (rnd.random() < 0.85 or d + 2 > maxd) else 2
            hist.append(["push", n])
            for _ in range(n):
                live.append([])
            last = "push"
        elif r < pa + pu + po and d >= 1:
            n = 1 if (rnd.random() < 0.75 or d < 2) else 2
            hist.append(["pop", n])
            for _ in range(n):
                popped += live.pop()
            last = "pop"
        else:
            hist.append(["check-sat"])
            last = "check-sat"
    if last != "check-sat":
        hist.append(["check-sat"])
    return hist


def gen_churn(rnd, asserts, pool, tg, depth, mk_assert, steps, maxd=4):
    """Dense push/assert/check/pop churn: frame ids and stack positions diverge early, levels are frequently
    unsat (by search or already by preprocessing) and every change is followed by a check."""
    hist = []
    live = [[]]
    popped = []
    pending = list(asserts)

    def chk(p=0.8):
        if rnd.random() < p:
            hist.append(["check-sat"])

    def new_assert():
        act = [t for lv in live for t in lv]
        d = len(live) - 1
        q = rnd.random()
        if q < 0.14 * d:
            a = rnd.choice(pool) if pool else "true"
            t = rnd.choice(["false", "(and %s (not %s))" % (a, a), "(not (or %s (not %s)))" % (a, a)])
        elif q < 0.4 and act and d >= 1:
            t = negate(rnd.choice(act))
        elif q < 0.55 and popped:
            t = rnd.choice(popped)
        elif pending:
            t = pending.pop()
        else:
            t = tg.boolean(rnd.randint(0, depth), pool)
        hist.append(mk_assert(t))
        live[-1].append(t)

    for _ in range(rnd.randint(0, 2)):
        new_assert()
    n = 0
    if rnd.random() < 0.5:
        # quick enter/leave cycles first: from now on frame ids and stack positions differ
        for _ in range(rnd.randint(1, 3)):
            hist.append(["push", 1])
            live.append([])
            if rnd.random() < 0.6:
                new_assert()
                chk(0.5)
            hist.append(["pop", 1])
            popped += live.pop()
            n += 2
    while n < steps:
        d = len(live) - 1
        r = rnd.random()
        if d == 0 or (r < 0.45 and d < maxd):
            k = 1 if (rnd.random() < 0.9 or d + 2 > maxd) else 2
            hist.append(["push", k])
            for _ in range(k):
                live.append([])
            new_assert()
            chk()
            n += 3
        elif r < 0.8:
            k = 1 if (d < 2 or rnd.random() < 0.75) else rnd.randint(1, d)
            hist.append(["pop", k])
            for _ in range(k):
                popped += live.pop()
            chk()
            n += 2
        else:
            new_assert()
            chk()
            n += 2
    if hist[-1][0] != "check-sat":
        hist.append(["check-sat"])
    return hist


def gen_layered(rnd, tier="quick", opts=None, named=False):
    """Incremental 'facts, then rules, then query' script: a unit fact at level 0, one implication per pushed level and the
    negated conclusion at the innermost level; the refutation needs clauses of every level (assumption conflict over several
    frame literals, root-level theory deductions that falsify literals of later clauses)."""
    lk = rnd.choice(["QF_LRA", "QF_LIA", "QF_UFLRA", "QF_RDL", "QF_IDL", "QF_UF", "PROP", "QF_UFLIA"])
    L = LOGICS[lk]
    sig = gen_sig(rnd, L, small=True)
    tg = TermGen(rnd, L, sig, big=False, let=False)
    nums = [x for x in ("Int", "Real") if len(sig.vars.get(x, [])) >= 2]
    k = rnd.randint(2, 4)

    def fact_and_contra():
        if nums and rnd.random() < 0.7:
            srt = rnd.choice(nums)
            x, y = rnd.sample(sig.vars[srt], 2)
            base = x if (rnd.random() < 0.4 and not L["dl"]) else "(- %s %s)" % (x, y)
            lit = (lambda v: int_lit(v)) if srt == "Int" else (lambda v: real_lit(rnd, v))
            c = rnd.randint(-3, 3)
            return "(<= %s %s)" % (base, lit(c)), "(> %s %s)" % (base, lit(c + rnd.randint(0, 4)))
        b = rnd.choice(sig.vars["Bool"])
        return b, "(not %s)" % b
    cmds = []
    nm = [0]

    def A(t):
        nm[0] += 1
        return ["assert-named", t, "n%d" % nm[0]] if named else ["assert", t]
    f, nf = fact_and_contra()
    cmds.append(A(f))
    prev_neg = nf
    for i in range(k):
        cmds.append(["push", 1])
        g, ng = fact_and_contra()
        cmds.append(A("(or %s %s)" % (prev_neg, g) if rnd.random() < 0.8 else "(or %s %s %s)" % (prev_neg, g, rnd.choice(sig.vars["Bool"]))))
        if rnd.random() < 0.3:
            cmds.append(["check-sat"])
        prev_neg = ng
    cmds.append(["push", 1])
    cmds.append(A(prev_neg))
    cmds.append(["check-sat"])
    for _ in range(rnd.randint(0, 2)):
        cmds.append(["pop", 1])
        cmds.append(["check-sat"])
    return {"options": list(opts or []), "logic": L["name"], "lk": lk, "decls": list(sig.decls), "cmds": cmds}


def gen_ksat(rnd, named=True, nmin=8, nmax=14, opts=None):
    """Random k-SAT near the threshold over Bool constants (unsat proofs with real search)."""
    n = rnd.randint(nmin, nmax)
    m = int(n * (4.0 + rnd.random() * 2.5))
    decls = ["(declare-fun p%d () Bool)" % i for i in range(n)]
    cmds = []
    seen = set()
    for j in range(m):
        k = 3 if rnd.random() < 0.8 else 2
        vs = rnd.sample(range(n), k)
        lits = ["p%d" % v if rnd.random() < 0.5 else "(not p%d)" % v for v in vs]
        t = "(or %s)" % " ".join(lits)
        key = tuple(sorted(lits))
        if key in seen:
            continue
        seen.add(key)
        cmds.append(["assert-named", t, "c%d" % j] if named else ["assert", t])
    cmds.append(["check-sat"])
    return {"options": list(opts or []), "logic": "QF_UF", "lk": "PROP", "decls": decls, "cmds": cmds}


def render(script, exit_cmd=False):
    out = []
    for k, v in script["options"]:
        out.append("(set-option %s %s)" % (k, v))
    out.append("(set-logic %s)" % script["logic"])
    out += script["decls"]
    for c in script["cmds"]:
        out.append(render_cmd(c))
    if exit_cmd:
        out.append("(exit)")
    return "\n".join(out) + "\n"


def render_cmd(c):
    k = c[0]
    if k == "assert":
        return "(assert %s)" % c[1]
    if k == "assert-named":
        return "(assert (! %s :named %s))" % (c[1], c[2])
    if k in ("push", "pop"):
        return "(%s %d)" % (k, c[1])
    if k in ("check-sat", "get-model", "get-assignment", "get-unsat-core", "get-proof"):
        return "(%s)" % k
    if k == "get-value":
        return "(get-value (%s))" % " ".join(c[1])
    if k == "get-interpolants":
        return "(get-interpolants %s)" % " ".join(c[1])
    if k == "define-fun":
        return "(define-fun %s (%s) %s %s)" % (c[1], c[2], c[3], c[4])
    if k == "raw":
        return c[1]
    raise ValueError(k)


def stack_walk(script):
    """Yield (cmd_index, cmd, active) for each command; active = list of (term, name|None) visible *before*
    the command is executed (for check-sat: the set it decides). define-funs are collected separately."""
    levels = [[]]
    for idx, c in enumerate(script["cmds"]):
        k = c[0]
        yield idx, c, [a for lv in levels for a in lv]
        if k == "assert":
            levels[-1].append((c[1], None))
        elif k == "assert-named":
            levels[-1].append((c[1], c[2]))
        elif k == "push":
            for _ in range(c[1]):
                levels.append([])
        elif k == "pop":
            for _ in range(min(c[1], len(levels) - 1)):
                levels.pop()


def defs_text(script, upto=None):
    out = []
    for idx, c in enumerate(script["cmds"]):
        if upto is not None and idx >= upto:
            break
        if c[0] == "define-fun":
            out.append(render_cmd(c))
    return out


def check_points(script):
    """[(cmd_index, [active terms], [names])] for each check-sat."""
    res = []
    for idx, c, active in stack_walk(script):
        if c[0] == "check-sat":
            res.append((idx, [t for t, _ in active], [n for _, n in active]))
    return res
