// Shared helpers for the in-process rapidcheck harnesses.
#pragma once
#include <cstdio>
#include <cstdlib>
#include <fstream>
#include <map>
#include <string>
#include <vector>

struct Stats {
    long evaluations = 0;
    long nontrivial = 0;
    std::map<std::string, long> classes;
    std::vector<std::string> samples;
    void sample(std::string const & s) { if (samples.size() < 5) samples.push_back(s); }
    void dump(const char * path) const {
        if (!path) return;
        std::ofstream o(path);
        o << "{\"evaluations\": " << evaluations << ", \"nontrivial\": " << nontrivial << ", \"classes\": {";
        bool first = true;
        for (auto const & kv : classes) { o << (first ? "" : ", ") << "\"" << kv.first << "\": " << kv.second; first = false; }
        o << "}, \"samples\": [";
        for (size_t i = 0; i < samples.size(); ++i) {
            std::string e;
            for (char c : samples[i]) { if (c == '"' || c == '\\') e += '\\'; if (c == '\n') { e += "\\n"; continue; } e += c; }
            o << (i ? ", " : "") << "\"" << e << "\"";
        }
        o << "]}\n";
    }
};

inline void writeFile(const char * path, std::string const & s) {
    if (!path) return;
    std::ofstream o(path);
    o << s;
}
