// C15 — rational arithmetic exact in both representations.
// Modes:  h_rational rc      : rapidcheck register machine (RC_PARAMS from the environment)
//         h_rational pairs   : exhaustive boundary pairs x all operations
//         h_rational replay F: re-run the operation sequence stored in F
// Env: H_STATS=<file> (counters as JSON), H_FAIL=<file> (last failing sequence, text)
#include "common.h"
#include <common/numbers/FastRational.h>
#include <gmpxx.h>
#include <rapidcheck.h>
#include <climits>
#include <iostream>
#include <sstream>

using opensmt::FastRational;
static Stats stats;

struct Op { int kind, dst, a, b; };
struct Case { std::vector<std::string> init; std::vector<Op> ops; };

static std::string show(Case const & c) {
    std::ostringstream o;
    o << c.init.size();
    for (auto const & s : c.init) o << " " << s;
    o << "\n";
    for (auto const & op : c.ops) o << op.kind << " " << op.dst << " " << op.a << " " << op.b << "\n";
    return o.str();
}

static bool parse(std::istream & in, Case & c) {
    size_t n;
    if (!(in >> n)) return false;
    c.init.resize(n);
    for (auto & s : c.init) in >> s;
    Op op;
    while (in >> op.kind >> op.dst >> op.a >> op.b) c.ops.push_back(op);
    return true;
}

static bool fitsWord(mpq_class const & q) {
    return q.get_num().fits_sint_p() && q.get_den().fits_uint_p();
}

static std::string failure;
static std::string excludeList;   // H_EXCLUDE: comma separated ids of known findings that are excluded by construction
static bool excl(const char * id) { return excludeList.find(id) != std::string::npos; }
#define CHECK(cond, what) do { if (!(cond)) { std::ostringstream _o; _o << what; failure = _o.str(); return false; } } while (0)

// full comparison of a FastRational with its model value
static bool same(FastRational const & f, mpq_class const & m, const char * where) {
    mpq_class got(f.get_str());
    got.canonicalize();
    CHECK(got == m, where << ": value " << f.get_str() << " expected " << m.get_str());
    CHECK(f.isWellFormed(), where << ": not well formed " << f.get_str());
    CHECK(f.tryGetNumDen().has_value() == fitsWord(m), where << ": representation (word form iff the value fits) " << m.get_str());
    CHECK(f.sign() == sgn(m), where << ": sign");
    CHECK(f.isInteger() == (m.get_den() == 1), where << ": isInteger");
    CHECK(f.isZero() == (m == 0), where << ": isZero");
    CHECK(f.isOne() == (m == 1), where << ": isOne");
    {
        mpq_class n(f.get_num().get_str()), d(f.get_den().get_str());
        CHECK(n == m.get_num() && d == m.get_den(), where << ": get_num/get_den " << f.get_num().get_str() << "/" << f.get_den().get_str());
    }
    {
        mpz_class fl, ce;
        mpz_fdiv_q(fl.get_mpz_t(), m.get_num_mpz_t(), m.get_den_mpz_t());
        mpz_cdiv_q(ce.get_mpz_t(), m.get_num_mpz_t(), m.get_den_mpz_t());
        CHECK(mpq_class(f.floor().get_str()) == fl, where << ": floor of " << m.get_str() << " = " << f.floor().get_str());
        CHECK(mpq_class(f.ceil().get_str()) == ce, where << ": ceil of " << m.get_str() << " = " << f.ceil().get_str());
    }
    // equal values have equal hashes (compare with a value built directly from the canonical string)
    FastRational direct(m.get_str().c_str());
    CHECK(direct == f, where << ": == with directly constructed value");
    CHECK(direct.getHashValue() == f.getHashValue(), where << ": hash differs for equal values " << m.get_str());
    return true;
}

enum { ADD, SUB, MUL, DIV, ADDA, SUBA, MULA, DIVA, NEG, NEGATE, INV, COPY, MOVE, SELF_ADD, SELF_ASSIGN, CMP, GCD, LCM, FDIV, MOD,
       DIVEXACT, FLOORCEIL, NKINDS };

static bool run(Case const & c, bool count) {
    size_t n = c.init.size();
    std::vector<FastRational> r;
    std::vector<mpq_class> m;
    for (auto const & s : c.init) {
        r.emplace_back(s.c_str());
        mpq_class q(s);
        q.canonicalize();
        m.push_back(q);
    }
    for (size_t i = 0; i < n; ++i) if (!same(r[i], m[i], "init")) return false;
    bool nt = false;
    for (auto const & op : c.ops) {
        int d = op.dst % n, a = op.a % n, b = op.b % n;
        if (count) { stats.evaluations++; }
        bool big = !fitsWord(m[a]) || !fitsWord(m[b]);
        switch (op.kind % NKINDS) {
            case ADD: r[d] = r[a] + r[b]; m[d] = m[a] + m[b]; break;
            case SUB: r[d] = r[a] - r[b]; m[d] = m[a] - m[b]; break;
            case MUL: r[d] = r[a] * r[b]; m[d] = m[a] * m[b]; break;
            case DIV: if (m[b] == 0) continue; r[d] = r[a] / r[b]; m[d] = m[a] / m[b]; break;
            case ADDA: r[a] += r[b]; m[a] += m[b]; d = a; break;
            case SUBA: r[a] -= r[b]; m[a] -= m[b]; d = a; break;
            case MULA: r[a] *= r[b]; m[a] *= m[b]; d = a; break;
            case DIVA: if (m[b] == 0) continue; r[a] /= r[b]; m[a] /= m[b]; d = a; break;
            case NEG: r[d] = -r[a]; m[d] = -m[a]; break;
            case NEGATE: r[a].negate(); m[a] = -m[a]; d = a; break;
            case INV: if (m[a] == 0) continue; r[d] = r[a].inverse(); m[d] = 1 / m[a]; break;
            case COPY: { FastRational t(r[a]); r[d] = t; m[d] = m[a]; break; }
            case MOVE: { FastRational t(r[a]); r[d] = std::move(t); m[d] = m[a]; break; }
            case SELF_ADD: r[a] += r[a]; m[a] += m[a]; d = a; break;
            case SELF_ASSIGN: { FastRational & ref = r[a]; r[a] = ref; d = a; break; }
            case CMP: {
                int cf = r[a].compare(r[b]);
                int cm = cmp(m[a], m[b]);
                CHECK((cf < 0) == (cm < 0) && (cf > 0) == (cm > 0), "compare " << m[a].get_str() << " " << m[b].get_str());
                CHECK((r[a] == r[b]) == (cm == 0) && (r[a] < r[b]) == (cm < 0) && (r[a] <= r[b]) == (cm <= 0) &&
                      (r[a] > r[b]) == (cm > 0) && (r[a] >= r[b]) == (cm >= 0) && (r[a] != r[b]) == (cm != 0), "relational operators");
                if (cm == 0) CHECK(r[a].getHashValue() == r[b].getHashValue(), "hash of equal values");
                continue;
            }
            case GCD: case LCM: case FDIV: case MOD: case DIVEXACT: {
                // integer-only operations (callers pass integers); operands are rounded first
                r[a] = r[a].floor(); mpz_class fa; mpz_fdiv_q(fa.get_mpz_t(), m[a].get_num_mpz_t(), m[a].get_den_mpz_t()); m[a] = fa;
                r[b] = r[b].floor(); mpz_class fb; mpz_fdiv_q(fb.get_mpz_t(), m[b].get_num_mpz_t(), m[b].get_den_mpz_t()); m[b] = fb;
                if (!same(r[a], m[a], "floor a") || !same(r[b], m[b], "floor b")) return false;
                int k = op.kind % NKINDS;
                bool wordOperands = fa.fits_sint_p() && fb.fits_sint_p();
                mpz_class intmin = -(mpz_class(1) << 31);
                if ((k == GCD || k == LCM) && wordOperands && excl("gcd-word-negative") && (fa < 0 || fb < 0)) {
                    stats.classes["excluded:gcd-word-negative"]++;
                    continue;
                }
                if (k == MOD && wordOperands && excl("mod-word-mixed-sign") && (fa < 0 || fb < 0)) {
                    stats.classes["excluded:mod-word-mixed-sign"]++;
                    continue;
                }
                if (k == FDIV && wordOperands && excl("fdiv-word-intmin") && (fa == intmin || fb == intmin)) {
                    stats.classes["excluded:fdiv-word-intmin"]++;
                    continue;
                }
                if (k == DIVEXACT && wordOperands && excl("divexact-word-intmin") && fa == intmin && fb == -1) {
                    stats.classes["excluded:divexact-word-intmin"]++;
                    continue;
                }
                if (k == GCD) {
                    if (fa == 0 && fb == 0) continue;
                    mpz_class g; mpz_gcd(g.get_mpz_t(), fa.get_mpz_t(), fb.get_mpz_t());
                    r[d] = gcd(r[a], r[b]); m[d] = g;
                } else if (k == LCM) {
                    if (fa == 0 || fb == 0) continue;
                    mpz_class l; mpz_lcm(l.get_mpz_t(), fa.get_mpz_t(), fb.get_mpz_t());
                    r[d] = lcm(r[a], r[b]); m[d] = l;
                } else if (k == FDIV) {
                    if (fb == 0) continue;
                    mpz_class q; mpz_fdiv_q(q.get_mpz_t(), fa.get_mpz_t(), fb.get_mpz_t());
                    r[d] = fastrat_fdiv_q(r[a], r[b]); m[d] = q;
                } else if (k == MOD) {
                    if (fb == 0) continue;
                    FastRational res = r[a] % r[b];
                    mpz_class rm(res.get_str());
                    // contract: a remainder of a by b that has the sign of b: (a - r) divisible by b, |r| < |b|, r == 0 or sign(r) == sign(b)
                    mpz_class diff = fa - rm;
                    CHECK(mpz_divisible_p(diff.get_mpz_t(), fb.get_mpz_t()), "remainder " << fa.get_str() << " % " << fb.get_str() << " = " << rm.get_str() << ": a - r is not a multiple of b");
                    CHECK(abs(rm) < abs(fb), "remainder magnitude " << fa.get_str() << " % " << fb.get_str() << " = " << rm.get_str());
                    CHECK(rm == 0 || sgn(rm) == sgn(fb), "remainder sign " << fa.get_str() << " % " << fb.get_str() << " = " << rm.get_str());
                    r[d] = res; m[d] = rm;
                } else {
                    if (fb == 0 || !mpz_divisible_p(fa.get_mpz_t(), fb.get_mpz_t())) continue;
                    mpz_class q; mpz_divexact(q.get_mpz_t(), fa.get_mpz_t(), fb.get_mpz_t());
                    r[d] = divexact(r[a], r[b]); m[d] = q;
                }
                break;
            }
            case FLOORCEIL: { r[d] = r[a].floor() + r[b].ceil(); mpz_class x, y; mpz_fdiv_q(x.get_mpz_t(), m[a].get_num_mpz_t(), m[a].get_den_mpz_t());
                mpz_cdiv_q(y.get_mpz_t(), m[b].get_num_mpz_t(), m[b].get_den_mpz_t()); m[d] = x + y; break; }
        }
        m[d].canonicalize();
        std::ostringstream w;
        w << "op " << (op.kind % NKINDS);
        if (!same(r[d], m[d], w.str().c_str())) return false;
        if (!same(r[a], m[a], "operand a after op") || !same(r[b], m[b], "operand b after op")) return false;
        if (big || !fitsWord(m[d])) nt = true;
    }
    if (count && nt) stats.nontrivial++;
    return true;
}

static std::vector<std::string> pool() {
    std::vector<mpz_class> base;
    auto add = [&](mpz_class v) { base.push_back(v); base.push_back(-v); };
    for (int i = 0; i <= 3; ++i) add(i);
    mpz_class p31 = mpz_class(1) << 31, p32 = mpz_class(1) << 32, p53 = mpz_class(1) << 53, p63 = mpz_class(1) << 63, p64 = mpz_class(1) << 64;
    for (int k = -2; k <= 1; ++k) { add(p31 + k); add(p32 + k); }
    for (int k = -1; k <= 1; ++k) { add(p53 + k); add(p63 + k); add(p64 + k); }
    std::vector<std::string> out;
    for (auto const & v : base) out.push_back(v.get_str());
    return out;
}

int main(int argc, char ** argv) {
    std::string mode = argc > 1 ? argv[1] : "rc";
    const char * statsPath = std::getenv("H_STATS");
    const char * failPath = std::getenv("H_FAIL");
    if (std::getenv("H_EXCLUDE")) excludeList = std::getenv("H_EXCLUDE");
    if (mode == "replay" && argc > 2) {
        std::ifstream in(argv[2]);
        Case c;
        if (!parse(in, c)) { std::puts("cannot read case"); return 2; }
        bool ok = run(c, true);
        std::printf(ok ? "OK\n" : "FAIL %s\n", failure.c_str());
        return ok ? 0 : 1;
    }
    if (mode == "pairs") {
        auto p = pool();
        std::vector<std::string> vals;
        for (auto const & n : p) {
            vals.push_back(n);
        }
        // rationals n/d over a reduced set of denominators
        std::vector<std::string> dens = {"2", "3", "2147483647", "2147483648", "4294967295", "4294967296", "9223372036854775807", "18446744073709551617"};
        if (argc > 4 && std::string(argv[4]) == "lite") dens = {"3", "2147483648", "4294967295", "18446744073709551617"};   // quick tier
        for (auto const & n : p) for (auto const & d : dens) vals.push_back(n + "/" + d);
        long fails = 0;
        size_t part = argc > 3 ? std::atoi(argv[2]) : 0, parts = argc > 3 ? std::atoi(argv[3]) : 1;
        for (size_t i = part; i < vals.size(); i += parts) {
            for (size_t j = 0; j < vals.size(); ++j) {
                for (int k = 0; k < NKINDS; ++k) {
                    Case c{{vals[i], vals[j], "0"}, {Op{k, 2, 0, 1}}};
                    if (!run(c, true)) {
                        ++fails;
                        std::string key = failure.substr(0, failure.find(' ') == std::string::npos ? failure.size() : failure.find(' '));
                        stats.classes["fail:" + failure.substr(0, 24)]++;
                        if (fails <= 20) { std::printf("FAIL %s\n%s", failure.c_str(), show(c).c_str()); }
                        writeFile(failPath, show(c));
                    }
                }
            }
        }
        stats.classes["values"] = vals.size();
        stats.sample(vals[7] + " , " + vals[vals.size() - 3] + " x all " + std::to_string((int)NKINDS) + " operations");
        stats.dump(statsPath);
        std::printf("pairs done: %ld failures\n", fails);
        return fails ? 1 : 0;
    }
    // rapidcheck register machine
    auto p = pool();
    auto genValue = rc::gen::oneOf(
        rc::gen::map(rc::gen::pair(rc::gen::elementOf(p), rc::gen::elementOf(p)), [](std::pair<std::string, std::string> x) {
            if (x.second == "0" || x.second == "-0" || x.second[0] == '-') return x.first;
            return x.first + "/" + x.second; }),
        rc::gen::map(rc::gen::inRange<long>(-40, 40), [](long v) { return std::to_string(v); }),
        rc::gen::map(rc::gen::pair(rc::gen::arbitrary<int64_t>(), rc::gen::inRange<uint32_t>(1, 4000000000u)),
                     [](std::pair<int64_t, uint32_t> x) { return std::to_string(x.first) + "/" + std::to_string(x.second); }),
        rc::gen::map(rc::gen::container<std::vector<int>>(rc::gen::inRange(0, 10)), [](std::vector<int> ds) {
            std::string s = "1";
            for (int d : ds) s += char('0' + d);
            return s; }));
    auto genOp = rc::gen::construct<Op>(rc::gen::inRange(0, (int)NKINDS), rc::gen::inRange(0, 6), rc::gen::inRange(0, 6), rc::gen::inRange(0, 6));
    bool ok = rc::check("FastRational agrees with mpq_class on every operation sequence", [&]() {
        Case c;
        c.init = *rc::gen::container<std::vector<std::string>>(6, genValue);
        c.ops = *rc::gen::resize(60, rc::gen::container<std::vector<Op>>(genOp));
        bool good = run(c, true);
        if (good && stats.samples.size() < 3 && c.ops.size() > 3) stats.sample(show(c));
        if (!good) { writeFile(failPath, show(c)); RC_FAIL(failure); }
    });
    stats.dump(statsPath);
    return ok ? 0 : 1;
}
