// C16 — numeric literals are read and printed exactly (API entry points).
// Modes: h_numlit rc | replay <file>     case = logic index + literal string
#include "common.h"
#include <logics/ArithLogic.h>
#include <gmpxx.h>
#include <rapidcheck.h>
#include <iostream>
#include <optional>
#include <sstream>

using namespace opensmt;
static Stats stats;
static std::string failure;
static std::string excludeList;
static bool excl(const char * id) { return excludeList.find(id) != std::string::npos; }

struct Logics {
    ArithLogic lra{Logic_t::QF_LRA}, lia{Logic_t::QF_LIA}, lira{Logic_t::QF_AUFLIRA};
    ArithLogic & get(int i) { return i == 0 ? lra : i == 1 ? lia : lira; }
};
static Logics * LG;

static bool digits(std::string const & s) { if (s.empty()) return false; for (char c : s) if (c < '0' || c > '9') return false; return true; }

// decimal "ddd" or "ddd.ddd" or ".ddd" -> exact value
static std::optional<mpq_class> decimal(std::string const & s) {
    size_t p = s.find('.');
    if (p == std::string::npos) { if (!digits(s)) return {}; return mpq_class(mpz_class(s, 10)); }
    std::string a = s.substr(0, p), b = s.substr(p + 1);
    if (!b.empty() && !digits(b)) return {};
    if (b.empty()) return {};
    if (!a.empty() && !digits(a)) return {};
    mpz_class num((a.empty() ? "0" : a) + b, 10), den;
    mpz_ui_pow_ui(den.get_mpz_t(), 10, b.size());
    mpq_class q(num, den);
    q.canonicalize();
    return q;
}

// the contract of the code (isIntString / isRealString) + non-zero denominator: [-] decimal [/ decimal]
static std::optional<mpq_class> exact(std::string s, bool & intForm) {
    intForm = false;
    if (s.empty()) return {};
    bool neg = false;
    if (s[0] == '-') { neg = true; s = s.substr(1); }
    if (s.empty()) return {};
    intForm = digits(s);
    size_t p = s.find('/');
    std::optional<mpq_class> v;
    if (p == std::string::npos) v = decimal(s);
    else {
        if (s.substr(0, p).empty() || s.substr(0, p)[0] == '.') { /* ".5/2" is accepted by isRealString S0->S2->S3->S4 */ }
        auto a = decimal(s.substr(0, p)), b = decimal(s.substr(p + 1));
        if (!a || !b || *b == 0) return {};
        if (s.substr(p + 1)[0] == '.') return {};   // isRealString: after '/' a digit must come first
        v = *a / *b;
    }
    if (!v) return {};
    if (neg) *v = -*v;
    v->canonicalize();
    return v;
}

static bool checkCase(int li, std::string const & lit, bool count) {
    ArithLogic & L = LG->get(li);
    bool intForm;
    auto want = exact(lit, intForm);
    if (count) stats.evaluations++;
    bool wellFormed = want.has_value();
    bool expectAccept = wellFormed;
    if (li == 1 && !intForm) expectAccept = false;         // integer logic: only integral spellings
    PTRef t = PTRef_Undef;
    bool threw = false;
    std::string how;
    try { t = L.mkConst(lit.c_str()); }
    catch (std::exception const & e) { threw = true; how = "std"; }
    catch (...) { threw = true; how = "nonstd"; }
    if (threw) {
        if (count) stats.classes["rejected-" + how]++;
        if (expectAccept) {
            if (lit.find('/') != std::string::npos && lit.find('.') != std::string::npos) {
                // fractions whose parts are decimals are outside SMT-LIB; isRealString admits them, the converter rejects them:
                // a rejection is a legitimate outcome (only a *wrong value* would be a violation)
                if (count) stats.classes["fraction-with-decimal-parts-rejected"]++;
                return true;
            }
            failure = "well-formed literal rejected: '" + lit + "' in logic " + std::to_string(li);
            return false;
        }
        return true;
    }
    if (!expectAccept) {
        // not a numeric constant for this logic: Logic::mkConst decides; it must not become a *numeric* constant
        if (L.isNumConst(t)) { failure = "ill-formed literal '" + lit + "' silently became the number " + L.getNumConst(t).get_str(); return false; }
        if (count) stats.classes["accepted-non-numeric"]++;
        return true;
    }
    if (!L.isNumConst(t)) { failure = "literal '" + lit + "' accepted but is not a numeric constant"; return false; }
    mpq_class got(L.getNumConst(t).get_str());
    got.canonicalize();
    if (got != *want) { failure = "literal '" + lit + "' denotes " + got.get_str() + ", exact value " + want->get_str(); return false; }
    // same value, canonical spelling -> same constant
    std::string canon = want->get_den() == 1 ? want->get_num().get_str() : want->get_str();
    PTRef c = PTRef_Undef;
    try { c = (li == 1 || (li == 2 && intForm)) ? L.mkIntConst(Number(canon.c_str())) : L.mkRealConst(Number(canon.c_str())); } catch (...) {}
    bool canonical = lit == canon;
    if (c != PTRef_Undef && c != t) {
        if (excl("non-canonical-integer-spelling") && intForm) { if (count) stats.classes["excluded:non-canonical-integer-spelling"]++; }
        else { failure = "literal '" + lit + "' and canonical '" + canon + "' are different constants: " + L.termToSMT2String(t) + " vs " + L.termToSMT2String(c); return false; }
    }
    // printing
    std::string printed = L.termToSMT2String(t);
    {
        // (- n), (/ n d), (/ (- n) d), n
        std::string p = printed;
        for (char & ch : p) if (ch == '(' || ch == ')') ch = ' ';
        std::istringstream is(p);
        std::vector<std::string> tok; std::string x;
        while (is >> x) tok.push_back(x);
        mpq_class pv; bool ok = true; bool neg = false;
        std::vector<std::string> nums;
        bool div = false;
        for (auto const & k : tok) { if (k == "-") neg = !neg; else if (k == "/") div = true; else nums.push_back(k); }
        try {
            if (!div && nums.size() == 1) pv = mpq_class(nums[0]);
            else if (div && nums.size() == 2) pv = mpq_class(nums[0]) / mpq_class(nums[1]);
            else ok = false;
        } catch (...) { ok = false; }
        if (ok) { pv.canonicalize(); if (neg) pv = -pv; }
        if (!ok || pv != *want) {
            if (!(excl("non-canonical-integer-spelling") && intForm && !canonical)) {
                failure = "literal '" + lit + "' prints as '" + printed + "' which does not denote " + want->get_str(); return false; }
        }
    }
    if (count) {
        bool nt = !canonical || lit.size() > 9;
        if (nt) { stats.nontrivial++; if (stats.samples.size() < 5) stats.sample(std::to_string(li) + ": '" + lit + "' -> " + printed); }
        stats.classes["accepted"]++;
    }
    return true;
}

int main(int argc, char ** argv) {
    std::string mode = argc > 1 ? argv[1] : "rc";
    const char * statsPath = std::getenv("H_STATS");
    const char * failPath = std::getenv("H_FAIL");
    if (std::getenv("H_EXCLUDE")) excludeList = std::getenv("H_EXCLUDE");
    Logics lg; LG = &lg;
    if (mode == "replay" && argc > 2) {
        std::ifstream in(argv[2]);
        int li; std::string lit;
        in >> li; std::getline(in, lit);
        if (!lit.empty() && lit[0] == ' ') lit = lit.substr(1);
        bool ok = checkCase(li, lit, true);
        std::printf(ok ? "OK\n" : "FAIL %s\n", failure.c_str());
        return ok ? 0 : 1;
    }
    auto digitsGen = [](int maxLen) {
        return rc::gen::map(rc::gen::pair(rc::gen::inRange(0, 4), rc::gen::resize(maxLen, rc::gen::container<std::string>(rc::gen::elementOf(std::string("0123456789"))))),
                            [](std::pair<int, std::string> p) {
                                std::string s = p.second;
                                if (p.first == 0) s = "00" + s;                 // leading zeros
                                if (p.first == 1) s = s + "000";                // trailing zeros
                                if (p.first == 2 && !s.empty()) s[0] = '0';
                                return s; });
    };
    auto lit = rc::gen::oneOf(
        // structured: [-] d [. d] [/ d [. d]]
        rc::gen::map(rc::gen::tuple(rc::gen::inRange(0, 4), digitsGen(12), rc::gen::inRange(0, 3), digitsGen(8), rc::gen::inRange(0, 4), digitsGen(10),
                                    rc::gen::inRange(0, 4), digitsGen(6)),
                     [](std::tuple<int, std::string, int, std::string, int, std::string, int, std::string> t) {
                         std::string s = std::get<0>(t) == 0 ? "-" : "";
                         s += std::get<1>(t);
                         if (std::get<2>(t) == 0) s += "." + std::get<3>(t);
                         if (std::get<4>(t) == 0) { s += "/" + std::get<5>(t); if (std::get<6>(t) == 0) s += "." + std::get<7>(t); }
                         return s; }),
        // long literals
        rc::gen::map(rc::gen::pair(rc::gen::inRange(0, 3), rc::gen::resize(400, rc::gen::container<std::string>(rc::gen::elementOf(std::string("0123456789"))))),
                     [](std::pair<int, std::string> p) { return std::string(p.first == 0 ? "-" : "") + "1" + p.second + (p.first == 1 ? ".5" : ""); }),
        // special spellings and junk
        rc::gen::elementOf(std::vector<std::string>{"0", "-0", "0.0", "000", "007", "-007", ".5", "5.", "1/0", "1.5/2.5", "1/2.5", "0/5", "00.500", "1e5", "--1",
                                                    "1..2", "+1", "", "-", ".", "/", "1/", "/2", "1 2", "0x10", "#b101", "1/-2", "-1/2", "2147483648", "-2147483649",
                                                    "4294967296/4294967295", "1.0", "10.010", "0.000001", "123456789.987654321"}));
    bool ok = rc::check("numeric literals denote their exact value or are rejected", [&]() {
        int li = *rc::gen::inRange(0, 3);
        std::string s = *lit;
        if (s.find('\0') != std::string::npos) return;
        if (!checkCase(li, s, true)) { writeFile(failPath, std::to_string(li) + " " + s + "\n"); RC_FAIL(failure); }
    });
    stats.dump(statsPath);
    return ok ? 0 : 1;
}
