// C24 (instances in different threads do not interfere) and C25 (asynchronous stop never gives a wrong answer).
// Built twice: against the TSan library (data races) and against the ASan/UBSan library (memory errors).
// Modes: h_threads threads | stop | replay <file>
#include "common.h"
#include <api/GlobalStop.h>
#include <api/MainSolver.h>
#include <logics/ArithLogic.h>
#include <smtsolvers/SimpSMTSolver.h>
#include <tsolvers/THandler.h>
#include <condition_variable>
#include <mutex>
#include <rapidcheck.h>
#include <atomic>
#include <chrono>
#include <random>
#include <sstream>
#include <thread>

using namespace opensmt;
static Stats stats;
static std::string failure;

// Stop requests at a chosen point of the search (the harness owns the schedule): the K-th time the search reports a
// consistent point (CoreSMTSolver::notifyConsistency, the hook the parallel splitter uses) it waits until the stopper
// thread has issued its request.
struct Handshake {
    std::mutex mtx;
    std::condition_variable cv;
    bool reached = false, issued = false, atPoint = false;
};
class HandshakeSolver : public SimpSMTSolver {
public:
    HandshakeSolver(SMTConfig & c, THandler & t, int k, Handshake & h) : SimpSMTSolver(c, t), remaining(k), hs(h) {}
protected:
    ConsistencyAction notifyConsistency() override {
        if (remaining > 0 and --remaining == 0) {
            std::unique_lock<std::mutex> lock(hs.mtx);
            hs.reached = true;
            hs.atPoint = true;
            hs.cv.notify_all();
            hs.cv.wait(lock, [this] { return hs.issued; });
        }
        return ConsistencyAction::NoOp;
    }
private:
    int remaining;
    Handshake & hs;
};

struct Problem { uint32_t seed; int kind; };   // kind 0 LRA, 1 LIA, 2 UF, 3 UFLRA ; bit 4: big coefficients

static const char * BIG[] = {"4294967297", "9007199254740993", "18446744073709551617", "340282366920938463463374607431768211507"};

// Builds and solves one instance; everything (logic, config, solver) is local to the call.
static int solveOne(Problem p, std::atomic<bool> * started = nullptr, std::atomic<MainSolver *> * expose = nullptr, std::atomic<int> * phase = nullptr,
                    std::atomic<bool> * release = nullptr, std::string * digest = nullptr, int handshakeK = 0, Handshake * hs = nullptr) {
    std::mt19937 rng(p.seed);
    auto below = [&](uint32_t n) { return (uint32_t)(rng() % n); };
    int kind = p.kind & 3;
    bool big = p.kind & 4;
    SMTConfig config;
    Logic_t lt = kind == 0 ? Logic_t::QF_LRA : kind == 1 ? Logic_t::QF_LIA : kind == 2 ? Logic_t::QF_UF : Logic_t::QF_UFLRA;
    std::unique_ptr<Logic> logicPtr(kind == 2 ? new Logic(lt) : new ArithLogic(lt));
    Logic & logic = *logicPtr;
    std::unique_ptr<MainSolver> solverPtr;
    if (hs) {
        auto th = MainSolver::createTheory(logic, config);
        auto tm = std::make_unique<TermMapper>(logic);
        auto thandler = std::make_unique<THandler>(*th, *tm);
        auto inner = std::make_unique<HandshakeSolver>(config, *thandler, handshakeK, *hs);
        solverPtr.reset(new MainSolver(std::move(th), std::move(tm), std::move(thandler), std::move(inner), logic, config, "harness"));
    } else {
        solverPtr.reset(new MainSolver(logic, config, "harness"));
    }
    MainSolver & solver = *solverPtr;
    if (expose) expose->store(&solver);
    if (kind == 2) {
        SRef u = logic.declareUninterpretedSort("U");
        SymRef f = logic.declareFun("f", u, {u});
        std::vector<PTRef> xs;
        for (int i = 0; i < 6; ++i) xs.push_back(logic.mkVar(u, ("x" + std::to_string(i)).c_str()));
        int n = 6 + below(10);
        for (int i = 0; i < n; ++i) {
            PTRef a = xs[below(6)], b = xs[below(6)];
            if (below(2)) a = logic.mkUninterpFun(f, {a});
            if (below(3) == 0) b = logic.mkUninterpFun(f, {logic.mkUninterpFun(f, {b})});
            PTRef e = logic.mkEq(a, b);
            PTRef c = xs[below(6)], d = xs[below(6)];
            PTRef g = logic.mkEq(logic.mkUninterpFun(f, {c}), d);
            solver.addAssertion(below(3) ? logic.mkOr(below(2) ? e : logic.mkNot(e), below(2) ? g : logic.mkNot(g)) : (below(2) ? e : logic.mkNot(e)));
        }
    } else {
        ArithLogic & al = static_cast<ArithLogic &>(logic);
        bool isInt = kind == 1;
        std::vector<PTRef> xs;
        for (int i = 0; i < 5; ++i) xs.push_back(isInt ? al.mkIntVar(("x" + std::to_string(i)).c_str()) : al.mkRealVar(("x" + std::to_string(i)).c_str()));
        auto cst = [&](bool allowBig) {
            std::string s = (allowBig && big && below(2)) ? BIG[below(4)] : std::to_string(1 + below(7));
            if (below(2)) s = "-" + s;
            Number v(s.c_str());
            return isInt ? al.mkIntConst(v) : al.mkRealConst(v);
        };
        PTRef fx = PTRef_Undef;
        SymRef f;
        if (kind == 3) { f = al.declareFun("f", al.getSort_real(), {al.getSort_real()}); }
        int n = 5 + below(9);
        for (int i = 0; i < n; ++i) {
            vec<PTRef> sum;
            int k = 2 + below(2);
            for (int j = 0; j < k; ++j) {
                PTRef v = xs[below(5)];
                if (kind == 3 && below(4) == 0) v = al.mkUninterpFun(f, {v});
                sum.push(al.mkTimes(cst(true), v));
            }
            PTRef lhs = al.mkPlus(std::move(sum));
            PTRef rhs = cst(true);
            PTRef atom = below(2) ? al.mkLeq(lhs, rhs) : al.mkGeq(lhs, rhs);
            if (below(4) == 0) atom = al.mkEq(lhs, rhs);
            PTRef other = al.mkLeq(xs[below(5)], cst(false));
            if (digest) *digest += al.termToSMT2String(atom) + "\n";
            solver.addAssertion(below(3) ? al.mkOr(atom, other) : atom);
        }
        if (digest && big && isInt) {
            // many more constraints are only built (not asserted): their normalised form (gcd of the coefficients, rounded
            // bounds) is part of what a thread computes, and must not depend on what other threads do meanwhile
            for (int i = 0; i < 60; ++i) {
                vec<PTRef> sum;
                for (int j = 0; j < 3; ++j) sum.push(al.mkTimes(cst(true), xs[below(5)]));
                PTRef lhs = al.mkPlus(std::move(sum));
                PTRef atom = below(2) ? al.mkLeq(lhs, cst(true)) : al.mkEq(lhs, cst(true));
                *digest += al.termToSMT2String(atom) + "\n";
            }
        }
    }
    if (started) started->store(true);
    if (phase) phase->store(1);
    sstat r = solver.check();
    if (hs) {
        // the search ended before its K-th consistent point: release the stopper (its request then comes after the answer)
        std::lock_guard<std::mutex> lock(hs->mtx);
        if (!hs->reached) { hs->reached = true; hs->cv.notify_all(); }
    }
    if (phase) phase->store(2);
    if (release) { while (!release->load()) std::this_thread::yield(); }   // keep the solver object alive for the stopper
    if (expose) { expose->store(nullptr); }
    return r == s_True ? 1 : r == s_False ? 0 : 2;
}

struct ThreadCase { std::vector<Problem> probs; std::vector<int> spins; };

static std::string show(ThreadCase const & c) {
    std::ostringstream o;
    o << "threads " << c.probs.size();
    for (size_t i = 0; i < c.probs.size(); ++i) o << " " << c.probs[i].seed << " " << c.probs[i].kind << " " << c.spins[i];
    o << "\n";
    return o.str();
}

static bool runThreads(ThreadCase const & c, bool count) {
    std::vector<int> solo;
    std::vector<std::string> soloDigest(c.probs.size()), concDigest(c.probs.size());
    for (size_t i = 0; i < c.probs.size(); ++i) solo.push_back(solveOne(c.probs[i], nullptr, nullptr, nullptr, nullptr, &soloDigest[i]));
    std::vector<int> conc(c.probs.size(), -1);
    std::vector<std::thread> ts;
    for (size_t i = 0; i < c.probs.size(); ++i) {
        ts.emplace_back([&, i]() {
            volatile unsigned spin = 0;
            for (int k = 0; k < c.spins[i]; ++k) spin = spin + 1;
            conc[i] = solveOne(c.probs[i], nullptr, nullptr, nullptr, nullptr, &concDigest[i]);
        });
    }
    for (auto & t : ts) t.join();
    if (count) {
        stats.evaluations++;
        int bigs = 0;
        for (auto const & p : c.probs) if ((p.kind & 4) && (p.kind & 3) != 2) ++bigs;
        if (c.probs.size() >= 2 && bigs >= 2) { stats.nontrivial++; if (stats.samples.size() < 3) stats.sample(show(c)); }
        stats.classes["threads:" + std::to_string(c.probs.size())]++;
    }
    for (size_t i = 0; i < c.probs.size(); ++i) {
        if (concDigest[i] != soloDigest[i]) {
            std::ostringstream o;
            o << "instance " << i << " (seed " << c.probs[i].seed << ", kind " << c.probs[i].kind << ") builds different terms concurrently than alone";
            failure = o.str();
            return false;
        }
        if (conc[i] != solo[i]) {
            std::ostringstream o;
            o << "instance " << i << " (seed " << c.probs[i].seed << ", kind " << c.probs[i].kind << ") answers " << conc[i] << " concurrently, " << solo[i] << " alone";
            failure = o.str();
            return false;
        }
    }
    return true;
}

struct StopCase { Problem prob; int delayUs; bool global; };

static std::string show(StopCase const & c) {
    std::ostringstream o;
    o << "stop " << c.prob.seed << " " << c.prob.kind << " " << c.delayUs << " " << (c.global ? 1 : 0) << "\n";
    return o.str();
}

static bool runStop(StopCase const & c, bool count) {
    resetGlobalStop();
    int solo = solveOne(c.prob);
    std::atomic<bool> started{false};
    std::atomic<int> phase{0};
    std::atomic<MainSolver *> solverPtr{nullptr};
    std::atomic<bool> solverDone{false};
    std::atomic<bool> stopperDone{false};
    int res = -1;
    std::atomic<int> landed{-1};
    std::thread solverThread([&]() {
        res = solveOne(c.prob, &started, &solverPtr, &phase, &stopperDone);
        solverDone.store(true);
    });
    // the stopper: waits for the generated delay, then requests the stop (global, or on the solver object while it is alive)
    std::thread stopper([&]() {
        auto t0 = std::chrono::steady_clock::now();
        while (std::chrono::duration_cast<std::chrono::microseconds>(std::chrono::steady_clock::now() - t0).count() < c.delayUs) { }
        landed.store(phase.load());
        if (c.global) { notifyGlobalStop(); }
        else {
            // the solver object lives until solveOne returns; phase==1 means check() is running on it
            MainSolver * ms = solverPtr.load();
            if (ms) { ms->notifyStop(); } else { notifyGlobalStop(); }
        }
        stopperDone.store(true);
    });
    solverThread.join();
    stopper.join();
    resetGlobalStop();
    if (count) {
        stats.evaluations++;
        const char * names[] = {"before-check", "during-check", "after-check"};
        int l = landed.load();
        stats.classes[std::string("landed:") + (l >= 0 && l <= 2 ? names[l] : "unknown")]++;
        stats.classes[std::string("result:") + (res == 2 ? "unknown" : "definitive")]++;
        if (l == 1) { stats.nontrivial++; if (stats.samples.size() < 3) stats.sample(show(c)); }
    }
    if (res != 2 && res != solo) {
        std::ostringstream o;
        o << "stop request gave the wrong definitive answer " << res << " (alone: " << solo << ")";
        failure = o.str();
        return false;
    }
    return true;
}

struct StopKCase { Problem prob; int k; bool global; };
static std::string show(StopKCase const & c) {
    std::ostringstream o;
    o << "stopk " << c.prob.seed << " " << c.prob.kind << " " << c.k << " " << (c.global ? 1 : 0) << "\n";
    return o.str();
}
// the stop request is issued while the search waits at its K-th consistent point
static bool runStopK(StopKCase const & c, bool count) {
    resetGlobalStop();
    int solo = solveOne(c.prob);
    Handshake hs;
    std::atomic<MainSolver *> solverPtr{nullptr};
    std::atomic<bool> stopperDone{false};
    int res = -1;
    std::thread stopper([&]() {
        std::unique_lock<std::mutex> lock(hs.mtx);
        hs.cv.wait(lock, [&] { return hs.reached; });
        MainSolver * ms = solverPtr.load();
        if (c.global || !ms) notifyGlobalStop(); else ms->notifyStop();
        hs.issued = true;
        hs.cv.notify_all();
        stopperDone.store(true);
    });
    std::thread solverThread([&]() {
        res = solveOne(c.prob, nullptr, &solverPtr, nullptr, &stopperDone, nullptr, c.k, &hs);
    });
    solverThread.join();
    stopper.join();
    resetGlobalStop();
    bool landed = hs.atPoint;
    if (count) {
        stats.evaluations++;
        stats.classes[landed ? "landed:at-consistent-point" : "landed:after-answer"]++;
        stats.classes[std::string("result:") + (res == 2 ? "unknown" : "definitive")]++;
        if (landed) { stats.nontrivial++; if (stats.samples.size() < 3) stats.sample(show(c)); }
    }
    if (res != 2 && res != solo) {
        std::ostringstream o;
        o << "stop request at consistent point " << c.k << " gave the wrong definitive answer " << res << " (alone: " << solo << ")";
        failure = o.str();
        return false;
    }
    return true;
}

int main(int argc, char ** argv) {
    std::string mode = argc > 1 ? argv[1] : "threads";
    const char * statsPath = std::getenv("H_STATS");
    const char * failPath = std::getenv("H_FAIL");
    if (mode == "replay" && argc > 2) {
        std::ifstream in(argv[2]);
        std::string m; in >> m;
        bool ok = true;
        if (m == "threads") {
            size_t n; in >> n; ThreadCase c;
            for (size_t i = 0; i < n; ++i) { Problem p; int sp; in >> p.seed >> p.kind >> sp; c.probs.push_back(p); c.spins.push_back(sp); }
            for (int rep = 0; rep < 5 && ok; ++rep) ok = runThreads(c, true);
        } else if (m == "stopk") {
            StopKCase c; int g; in >> c.prob.seed >> c.prob.kind >> c.k >> g; c.global = g;
            for (int rep = 0; rep < 3 && ok; ++rep) ok = runStopK(c, true);
        } else {
            StopCase c; int g; in >> c.prob.seed >> c.prob.kind >> c.delayUs >> g; c.global = g;
            for (int rep = 0; rep < 5 && ok; ++rep) ok = runStop(c, true);
        }
        std::printf(ok ? "OK\n" : "FAIL %s\n", failure.c_str());
        return ok ? 0 : 1;
    }
    bool ok;
    if (mode == "threads") {
        ok = rc::check("solver instances in different threads answer as they do alone", [&]() {
            ThreadCase c;
            // (inRange collapses towards its lower bound at small rapidcheck sizes, hence the resize; kinds are weighted
            // towards big-coefficient integer arithmetic, the only kind that reaches the shared big-number scratch state)
            static const int KINDS[] = {5, 5, 5, 5, 4, 4, 7, 1, 0, 2, 3, 6};
            int n = *rc::gen::resize(100, rc::gen::inRange(2, 9));
            for (int i = 0; i < n; ++i) {
                c.probs.push_back({*rc::gen::resize(100, rc::gen::inRange<uint32_t>(1, 1000000)), KINDS[*rc::gen::resize(100, rc::gen::inRange(0, 12))]});
                c.spins.push_back(*rc::gen::resize(100, rc::gen::inRange(0, 200000)));
            }
            if (!runThreads(c, true)) { writeFile(failPath, show(c)); RC_FAIL(failure); }
        });
    } else if (mode == "stopk") {
        ok = rc::check("a stop request at a chosen consistent point never produces a wrong answer", [&]() {
            static const int KINDS[] = {1, 1, 1, 5, 0, 3, 2, 4};   // integer arithmetic first: its complete check does the most work
            StopKCase c{{*rc::gen::resize(100, rc::gen::inRange<uint32_t>(1, 1000000)), KINDS[*rc::gen::resize(100, rc::gen::inRange(0, 8))]},
                        *rc::gen::resize(100, rc::gen::inRange(1, 9)), *rc::gen::resize(100, rc::gen::inRange(0, 2)) == 0};
            if (!runStopK(c, true)) { writeFile(failPath, show(c)); RC_FAIL(failure); }
        });
    } else {
        ok = rc::check("a stop request never produces a wrong answer", [&]() {
            StopCase c{{*rc::gen::resize(100, rc::gen::inRange<uint32_t>(1, 1000000)), *rc::gen::resize(100, rc::gen::inRange(0, 8))},
                       *rc::gen::resize(100, rc::gen::inRange(0, 6000)), *rc::gen::resize(100, rc::gen::inRange(0, 2)) == 0};
            if (!runStop(c, true)) { writeFile(failPath, show(c)); RC_FAIL(failure); }
        });
    }
    stats.dump(statsPath);
    return ok ? 0 : 1;
}
