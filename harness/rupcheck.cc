// RUP checker for the guarded DRUP-style trace (C12).
// stdin: records "K<TAB>lits" with K in {I,T,D,L,A}; for T records the literal list is the 3rd field.
// Every D, L, A clause must follow by unit propagation from all earlier clauses plus the negation of its literals.
// Deletions are not traced (every clause ever known stays implied), so ignoring them is sound.
// stdout: one line "FAIL <record index> <kind> <lits>" per failure; last line "CHECKED <n> <nontrivial>".
#include <cstdio>
#include <cstdlib>
#include <iostream>
#include <sstream>
#include <string>
#include <vector>
#include <map>

using Clause = std::vector<int>;
static std::vector<Clause> db;
static std::vector<signed char> val;  // indexed by var

static void ensureVar(int v) { if ((int)val.size() <= v) val.resize(v + 1, 0); }
static int litVal(int l) { int v = l > 0 ? l : -l; signed char x = val[v]; return l > 0 ? x : -x; }

static bool rup(const Clause & c) {
    std::fill(val.begin(), val.end(), 0);
    for (int l : c) { int v = l > 0 ? l : -l; ensureVar(v); }
    for (int l : c) {
        int v = l > 0 ? l : -l;
        signed char want = l > 0 ? -1 : 1;  // negate the literal
        if (val[v] == -want) return true;     // clause is a tautology
        val[v] = want;
    }
    bool changed = true;
    while (changed) {
        changed = false;
        for (const Clause & d : db) {
            int unassigned = 0, last = 0;
            bool sat = false;
            for (int l : d) {
                int x = litVal(l);
                if (x > 0) { sat = true; break; }
                if (x == 0) { ++unassigned; last = l; }
            }
            if (sat) continue;
            if (unassigned == 0) return true;  // conflict
            if (unassigned == 1) {
                int v = last > 0 ? last : -last;
                val[v] = last > 0 ? 1 : -1;
                changed = true;
            }
        }
    }
    return false;
}

int main() {
    std::string line;
    long idx = 0, checked = 0, nontrivial = 0;
    while (std::getline(std::cin, line)) {
        ++idx;
        if (line.size() < 2 || line[1] != '\t') continue;
        char k = line[0];
        if (k != 'I' && k != 'T' && k != 'D' && k != 'L' && k != 'A') continue;
        std::string body = line.substr(2);
        if (k == 'T') {
            size_t p = body.find('\t');
            if (p == std::string::npos) continue;
            body = body.substr(p + 1);
            size_t q = body.find('\t');
            if (q != std::string::npos) body = body.substr(0, q);
        }
        std::istringstream is(body);
        Clause c;
        long x;
        bool bad = false;
        while (is >> x) { if (x == 0) { bad = true; } c.push_back((int)x); }
        if (bad) continue;  // reason record without implied literal: not usable
        for (int l : c) ensureVar(l > 0 ? l : -l);
        if (k == 'D' || k == 'L' || k == 'A') {
            ++checked;
            if (c.size() >= 2) ++nontrivial;
            if (!rup(c)) { std::printf("FAIL %ld %c %s\n", idx, k, body.c_str()); }
        }
        db.push_back(c);
    }
    std::printf("CHECKED %ld %ld\n", checked, nontrivial);
    return 0;
}
