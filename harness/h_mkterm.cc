// C14 (term constructors return equivalent terms) and C27 (integer rounding) — in-process, libz3 as semantic oracle.
// Modes: h_mkterm mk | round | consts | replay <file>
// A case is a vector of entropy words consumed by a deterministic term builder (so rapidcheck shrinks the term).
#include "common.h"
#include <api/MainSolver.h>
#include <logics/ArithLogic.h>
#include <rewriters/DivModRewriter.h>
#include <tsolvers/stpsolver/IDLSolver.h>
#include <gmpxx.h>
#include <rapidcheck.h>
#include <z3.h>
#include <iostream>
#include <algorithm>
#include <map>
#include <set>
#include <sstream>

using namespace opensmt;
static Stats stats;
static std::string failure;
static std::string excludeList;
static bool excl(const char * id) { return excludeList.find(id) != std::string::npos; }

enum Srt { B, I, R, U, AI, NS };  // Bool Int Real U (Array Int Int)
struct T { PTRef tr; Srt s; };

struct Env {
    ArithLogic logic{Logic_t::QF_AUFLIRA};
    SRef usort, asort;
    std::vector<T> vars[NS];
    SymRef f, g, p;
    std::string decls;
    Z3_context z3;
    Env() {
        usort = logic.declareUninterpretedSort("U");
        asort = logic.getArraySort(logic.getSort_int(), logic.getSort_int());
        std::ostringstream d;
        d << "(declare-sort U 0)";
        for (int i = 0; i < 3; ++i) {
            std::string n = std::to_string(i);
            vars[B].push_back({logic.mkBoolVar(("b" + n).c_str()), B});
            vars[I].push_back({logic.mkIntVar(("i" + n).c_str()), I});
            vars[R].push_back({logic.mkRealVar(("r" + n).c_str()), R});
            vars[U].push_back({logic.mkVar(usort, ("u" + n).c_str()), U});
            vars[AI].push_back({logic.mkVar(asort, ("a" + n).c_str()), AI});
            d << "(declare-fun b" << n << " () Bool)(declare-fun i" << n << " () Int)(declare-fun r" << n << " () Real)"
              << "(declare-fun u" << n << " () U)(declare-fun a" << n << " () (Array Int Int))";
        }
        f = logic.declareFun("f", usort, {usort});
        g = logic.declareFun("g", logic.getSort_int(), {logic.getSort_int()});
        p = logic.declareFun("p", logic.getSort_bool(), {usort, logic.getSort_int()});
        d << "(declare-fun f (U) U)(declare-fun g (Int) Int)(declare-fun p (U Int) Bool)";
        decls = d.str();
        Z3_config cfg = Z3_mk_config();
        Z3_set_param_value(cfg, "timeout", "4000");
        z3 = Z3_mk_context(cfg);
        Z3_del_config(cfg);
        Z3_eval_smtlib2_string(z3, "(set-option :timeout 3000)");
        Z3_eval_smtlib2_string(z3, decls.c_str());
    }
    // "unsat" | "sat" | other
    std::string query(std::string const & assertion) {
        std::string s = "(push)(assert " + assertion + ")(check-sat)(pop)";
        std::string out = Z3_eval_smtlib2_string(z3, s.c_str());
        while (!out.empty() && (out.back() == '\n' || out.back() == ' ')) out.pop_back();
        return out;
    }
};
static Env * env;

static const char * BIGS[] = {"0", "1", "2", "3", "2147483647", "2147483648", "2147483649", "4294967295", "4294967296",
                              "9007199254740992", "9007199254740993", "9223372036854775807", "9223372036854775808",
                              "18446744073709551616", "123456789012345678901234567890"};

struct Src {
    std::vector<uint32_t> const & w;
    size_t pos = 0;
    uint32_t next() { return pos < w.size() ? w[pos++] : 0; }
    uint32_t below(uint32_t n) { return n ? next() % n : 0; }
};

static std::string str(PTRef t) { return env->logic.termToSMT2String(t); }

static T constant(Src & s, Srt srt) {
    ArithLogic & L = env->logic;
    std::string n = s.below(3) == 0 ? BIGS[s.below(sizeof(BIGS) / sizeof(*BIGS))] : std::to_string(s.below(6));
    bool neg = s.below(3) == 0;
    if (srt == I) {
        Number v((std::string(neg ? "-" : "") + n).c_str());
        return {L.mkIntConst(v), I};
    }
    std::string d = s.below(3) == 0 ? BIGS[1 + s.below(sizeof(BIGS) / sizeof(*BIGS) - 1)] : std::to_string(1 + s.below(6));
    Number v((std::string(neg ? "-" : "") + n + "/" + d).c_str());
    return {L.mkRealConst(v), R};
}

static const char * lastOp = "";
static std::string lastRef;
static std::vector<PTRef> lastArgs;

// builds a term of sort srt; at depth 0 leaves. `top` = record the reference text of the outermost constructor call
static T build(Src & s, Srt srt, int depth, bool top, bool intEmphasis);

static T leaf(Src & s, Srt srt) {
    if ((srt == I || srt == R) && s.below(3) == 0) return constant(s, srt);
    if (srt == B && s.below(8) == 0) return {s.below(2) ? env->logic.getTerm_true() : env->logic.getTerm_false(), B};
    return env->vars[srt][s.below(3)];
}

static T arg(Src & s, Srt srt, int depth, std::vector<T> const & sofar, bool intEmphasis) {
    // repeated and complementary arguments at high weight
    uint32_t r = s.below(10);
    if (!sofar.empty() && sofar.back().s == srt && r < 2) return sofar.back();
    if (!sofar.empty() && sofar.back().s == srt && r == 2) {
        if (srt == B) return {env->logic.mkNot(sofar.back().tr), B};
        if (srt == I || srt == R) return {env->logic.mkNeg(sofar.back().tr), srt};
    }
    return depth <= 0 ? leaf(s, srt) : build(s, srt, depth, false, intEmphasis);
}

static T build(Src & s, Srt srt, int depth, bool top, bool intEmphasis) {
    ArithLogic & L = env->logic;
    if (depth <= 0 && !top) return leaf(s, srt);
    std::vector<T> a;
    auto ref = [&](const char * op) {
        if (!top) return;
        lastOp = op;
        std::string r = std::string("(") + op;
        lastArgs.clear();
        for (auto const & x : a) { r += " " + str(x.tr); lastArgs.push_back(x.tr); }
        lastRef = r + ")";
    };
    auto args = [&](Srt as, int n) { for (int k = 0; k < n; ++k) a.push_back(arg(s, as, depth - 1, a, intEmphasis)); };
    if (srt == B) {
        uint32_t k = intEmphasis ? 6 + s.below(7) : s.below(15);
        Srt num = (intEmphasis || s.below(2)) ? I : R;
        switch (k) {
            case 0: { args(B, 2 + s.below(3)); ref("and"); vec<PTRef> v; for (auto & x : a) v.push(x.tr); return {L.mkAnd(std::move(v)), B}; }
            case 1: { args(B, 2 + s.below(3)); ref("or"); vec<PTRef> v; for (auto & x : a) v.push(x.tr); return {L.mkOr(std::move(v)), B}; }
            case 2: { args(B, 1); ref("not"); return {L.mkNot(a[0].tr), B}; }
            case 3: { args(B, 2); ref("xor"); return {L.mkXor(a[0].tr, a[1].tr), B}; }
            case 4: { args(B, 2); ref("=>"); return {L.mkImpl(a[0].tr, a[1].tr), B}; }
            case 5: { args(B, 3); ref("ite"); return {L.mkIte(a[0].tr, a[1].tr, a[2].tr), B}; }
            case 6: { Srt es = intEmphasis ? I : (Srt)s.below(NS); args(es, 2); ref("="); return {L.mkEq(a[0].tr, a[1].tr), B}; }  // incl. Bool
            case 7: { Srt es = intEmphasis ? I : (Srt)(1 + s.below(NS - 2)); args(es, 2 + s.below(3)); ref("distinct"); vec<PTRef> v; for (auto & x : a) v.push(x.tr);
                      return {L.mkDistinct(std::move(v)), B}; }
            case 8: { args(num, 2); ref("<="); return {L.mkLeq(a[0].tr, a[1].tr), B}; }
            case 9: { args(num, 2); ref("<"); return {L.mkLt(a[0].tr, a[1].tr), B}; }
            case 10: { args(num, 2); ref(">="); return {L.mkGeq(a[0].tr, a[1].tr), B}; }
            case 11: { args(num, 2); ref(">"); return {L.mkGt(a[0].tr, a[1].tr), B}; }
            case 12: { args(num, 3); ref("<="); vec<PTRef> v; for (auto & x : a) v.push(x.tr); return {L.mkLeq(v), B}; }
            case 13: { a.push_back(arg(s, U, depth - 1, a, false)); a.push_back(arg(s, I, depth - 1, a, false)); ref("p");
                       return {L.mkUninterpFun(env->p, {a[0].tr, a[1].tr}), B}; }
            default: { // n-ary distinct over non-Bool sorts: the logic keeps a bounded number of distinct classes and expands
                       // later ones into pairwise disequalities, so many different ones are needed in one logic instance
                       Srt es = (Srt)(1 + s.below(NS - 2)); args(es, 3 + s.below(3)); ref("distinct"); vec<PTRef> v; for (auto & x : a) v.push(x.tr);
                       return {L.mkDistinct(std::move(v)), B}; }
        }
    }
    if (srt == I || srt == R) {
        uint32_t k = s.below(srt == I ? 10 : 7);
        switch (k) {
            case 0: { args(srt, 2 + s.below(3)); ref("+"); vec<PTRef> v; for (auto & x : a) v.push(x.tr); return {L.mkPlus(std::move(v)), srt}; }
            case 1: { args(srt, 2); ref("-"); return {L.mkMinus(a[0].tr, a[1].tr), srt}; }
            case 2: { args(srt, 1); ref("-"); return {L.mkNeg(a[0].tr), srt}; }
            case 3: { a.push_back(constant(s, srt)); a.push_back(arg(s, srt, depth - 1, {}, intEmphasis)); if (s.below(2)) std::swap(a[0], a[1]); ref("*");
                      return {L.mkTimes(a[0].tr, a[1].tr), srt}; }
            case 4: { a.push_back(arg(s, B, depth - 1, {}, false)); args(srt, 2); ref("ite"); return {L.mkIte(a[0].tr, a[1].tr, a[2].tr), srt}; }
            case 5: { if (srt == R) { a.push_back(arg(s, R, depth - 1, {}, false)); a.push_back(constant(s, R)); ref("/");
                          return {L.mkRealDiv(a[0].tr, a[1].tr), R}; }
                      a.push_back(arg(s, AI, depth - 1, {}, false)); a.push_back(arg(s, I, depth - 1, {}, false)); ref("select");
                      return {L.mkSelect({a[0].tr, a[1].tr}), I}; }
            case 6: { if (srt == R) return leaf(s, R); a.push_back(arg(s, I, depth - 1, {}, intEmphasis)); ref("g"); return {L.mkUninterpFun(env->g, {a[0].tr}), I}; }
            case 7: case 8: { a.push_back(arg(s, I, depth - 1, {}, intEmphasis)); a.push_back(constant(s, I)); ref(k == 7 ? "div" : "mod");
                      return {k == 7 ? L.mkIntDiv(a[0].tr, a[1].tr) : L.mkMod(a[0].tr, a[1].tr), I}; }
            default: { a.push_back(constant(s, I)); a.push_back(constant(s, I)); bool dv = s.below(2); ref(dv ? "div" : "mod");
                      return {dv ? L.mkIntDiv(a[0].tr, a[1].tr) : L.mkMod(a[0].tr, a[1].tr), I}; }
        }
    }
    if (srt == U) {
        uint32_t k = s.below(3);
        if (k == 0) { args(U, 1); ref("f"); return {L.mkUninterpFun(env->f, {a[0].tr}), U}; }
        if (k == 1) { a.push_back(arg(s, B, depth - 1, {}, false)); args(U, 2); ref("ite"); return {L.mkIte(a[0].tr, a[1].tr, a[2].tr), U}; }
        return leaf(s, U);
    }
    // arrays
    if (s.below(3) == 0) return leaf(s, AI);
    a.push_back(arg(s, AI, depth - 1, {}, false)); a.push_back(arg(s, I, depth - 1, {}, false)); a.push_back(arg(s, I, depth - 1, {}, false));
    ref("store");
    return {L.mkStore({a[0].tr, a[1].tr, a[2].tr}), AI};
}

// returns true if the property holds (or the constructor cleanly rejected); false + failure otherwise
static bool checkCase(std::vector<uint32_t> const & words, bool intEmphasis, bool count) {
    Src s{words};
    Srt srt = intEmphasis ? (s.below(3) ? B : I) : (Srt)s.below(NS);
    lastRef.clear();
    T res;
    try {
        res = build(s, srt, 1 + s.below(3), true, intEmphasis);
    } catch (std::exception const & e) {
        if (count) { stats.evaluations++; stats.classes[std::string("rejected:") + lastOp]++; }
        return true;
    } catch (...) {
        if (count) { stats.evaluations++; stats.classes["rejected-nonstd"]++; }
        return true;
    }
    if (count) stats.evaluations++;
    if (lastRef.empty()) return true;
    std::string got = str(res.tr);
    if (count) stats.classes[std::string("op:") + lastOp]++;
    if (excl("mod-div-zero") && (std::string(lastOp) == "div" || std::string(lastOp) == "mod") && lastRef.size() > 3 &&
        lastRef.compare(lastRef.size() - 3, 3, " 0)") == 0) { if (count) stats.classes["excluded:div-by-zero"]++; return true; }
    std::string q = (res.s == B ? "(xor " : "(distinct ") + lastRef + " " + got + ")";
    std::string r = env->query(q);
    if (r == "unsat") {
        if (got != lastRef) { if (count) { stats.nontrivial++; if (stats.samples.size() < 4) stats.sample(lastRef + "  ==>  " + got); } }
        return true;
    }
    if (r == "sat") {
        failure = std::string("constructor result not equivalent: ") + lastRef + "  ==>  " + got;
        return false;
    }
    if (count) stats.classes[r.find("error") != std::string::npos ? "z3-error" : "z3-unknown"]++;
    return true;
}

// ---- C28: hash-consing -----------------------------------------------------------------------------------------
static PTRef applyOp(std::string const & op, std::vector<PTRef> const & a) {
    ArithLogic & L = env->logic;
    vec<PTRef> v; for (auto x : a) v.push(x);
    if (op == "and") return L.mkAnd(std::move(v));
    if (op == "or") return L.mkOr(std::move(v));
    if (op == "not") return L.mkNot(a[0]);
    if (op == "xor") return L.mkXor(a[0], a[1]);
    if (op == "=>") return L.mkImpl(a[0], a[1]);
    if (op == "ite") return L.mkIte(a[0], a[1], a[2]);
    if (op == "=") return L.mkEq(a[0], a[1]);
    if (op == "distinct") return L.mkDistinct(std::move(v));
    if (op == "<=") return a.size() == 2 ? L.mkLeq(a[0], a[1]) : L.mkLeq(v);
    if (op == "<") return L.mkLt(a[0], a[1]);
    if (op == ">=") return L.mkGeq(a[0], a[1]);
    if (op == ">") return L.mkGt(a[0], a[1]);
    if (op == "+") return L.mkPlus(std::move(v));
    if (op == "-") return a.size() == 1 ? L.mkNeg(a[0]) : L.mkMinus(a[0], a[1]);
    if (op == "*") return L.mkTimes(a[0], a[1]);
    if (op == "/") return L.mkRealDiv(a[0], a[1]);
    if (op == "div") return L.mkIntDiv(a[0], a[1]);
    if (op == "mod") return L.mkMod(a[0], a[1]);
    if (op == "select") return L.mkSelect({a[0], a[1]});
    if (op == "store") return L.mkStore({a[0], a[1], a[2]});
    if (op == "f") return L.mkUninterpFun(env->f, {a[0]});
    if (op == "g") return L.mkUninterpFun(env->g, {a[0]});
    if (op == "p") return L.mkUninterpFun(env->p, {a[0], a[1]});
    return PTRef_Undef;
}

// constructors that normalise the argument order (Bool-sorted = and xor go through the Boolean-operator branch of mkFun,
// which keeps the given order, so the property does not cover them)
static bool commutative(std::string const & op, std::vector<PTRef> const & args) {
    bool boolArgs = !args.empty() && env->logic.hasSortBool(args[0]);
    if (op == "=" || op == "distinct") return !boolArgs;
    return op == "and" || op == "or" || op == "+" || op == "*";
}

static std::map<std::string, PTRef> * printed;

static bool registerTerm(PTRef root, ArithLogic * logic = nullptr) {
    ArithLogic & L = logic ? *logic : env->logic;
    std::vector<PTRef> todo{root};
    std::set<uint32_t> seen;
    while (!todo.empty()) {
        PTRef t = todo.back(); todo.pop_back();
        if (!seen.insert(t.x).second) continue;
        Pterm const & pt = L.getPterm(t);
        std::string key = L.termToSMT2String(t) + " : " + L.sortToString(L.getSortRef(t));
        auto it = printed->find(key);
        if (it == printed->end()) (*printed)[key] = t;
        else if (it->second != t) { failure = "two different term identities print as " + key; return false; }
        for (int i = 0; i < pt.size(); ++i) {
            if (!(L.getPterm(pt[i]).getId().x < pt.getId().x && pt[i].x < t.x)) { failure = "subterm created after its parent: " + key + " child " + L.termToSMT2String(pt[i]) + " ids " + std::to_string(L.getPterm(pt[i]).getId().x) + " >= " + std::to_string(pt.getId().x) + " refs " + std::to_string(pt[i].x) + " vs " + std::to_string(t.x); return false; }
            todo.push_back(pt[i]);
        }
    }
    return true;
}

static bool hashconsCase(std::vector<uint32_t> const & words, bool count) {
    Src s{words};
    std::map<std::string, PTRef> pr;
    printed = &pr;
    int ncalls = 2 + s.below(10);
    bool reconstructed = false, permuted = false;
    struct Call { std::string op; std::vector<PTRef> args; PTRef res; };
    std::vector<Call> calls;
    for (int c = 0; c < ncalls; ++c) {
        Srt srt = (Srt)s.below(NS);
        lastRef.clear(); lastArgs.clear();
        T res;
        try { res = build(s, srt, 1 + s.below(2), true, false); } catch (...) { continue; }
        if (count) stats.evaluations++;
        if (lastRef.empty()) continue;
        calls.push_back({lastOp, lastArgs, res.tr});
        if (!registerTerm(res.tr)) return false;
    }
    // same constructor + same argument identities -> same identity; permuted arguments of commutative constructors too
    for (auto const & c : calls) {
        PTRef again;
        try { again = applyOp(c.op, c.args); } catch (...) { failure = "re-construction threw for (" + c.op + " ...)"; return false; }
        if (again == PTRef_Undef) continue;
        reconstructed = true;
        if (again != c.res) { failure = "same call twice gives different identities: (" + c.op + " ...) " + str(c.res) + " vs " + str(again); return false; }
        if (commutative(c.op, c.args) && c.args.size() >= 2) {
            std::vector<PTRef> p = c.args;
            std::rotate(p.begin(), p.begin() + 1 + s.below(p.size() - 1), p.end());
            if (s.below(3) == 0) std::reverse(p.begin(), p.end());
            PTRef q;
            try { q = applyOp(c.op, p); } catch (...) { failure = "permuted re-construction threw for (" + c.op + " ...)"; return false; }
            if (p != c.args) permuted = true;
            if (q != c.res) { failure = "permuted arguments of commutative (" + c.op + " ...) give another identity: " + str(c.res) + " vs " + str(q); return false; }
            if (!registerTerm(q)) return false;
        }
    }
    if (count && reconstructed && permuted) { stats.nontrivial++; if (stats.samples.size() < 3 && !calls.empty()) stats.sample(std::to_string(calls.size()) + " calls, last: " + str(calls.back().res)); }
    return true;
}

// C28 in a fresh term store per case: pure arithmetic logics (their equality normalisation differs from the UF/array
// logics), constants and variables created in a generated order (a constant may be older than every variable and its
// negation younger), every commutative constructor applied to both argument orders
static bool hashconsFresh(std::vector<uint32_t> const & words, bool count) {
    Src s{words};
    bool ints = s.below(2) == 0;
    ArithLogic L(ints ? Logic_t::QF_LIA : Logic_t::QF_LRA);
    std::map<std::string, PTRef> pr;
    printed = &pr;
    static const char * NUMS[] = {"0", "1", "2", "3", "5", "7", "12", "2147483648", "123456789012345678901"};
    auto mkc = [&]() {
        std::string n = NUMS[s.below(9)];
        if (s.below(3) == 0) n = "-" + n;
        if (!ints && s.below(4) == 0) n += "/3";
        return ints ? L.mkIntConst(FastRational(n.c_str())) : L.mkRealConst(FastRational(n.c_str()));
    };
    std::vector<PTRef> vars, consts;
    int n = 4 + s.below(5);
    for (int i = 0; i < n; ++i) {
        if (s.below(2) == 0) consts.push_back(mkc());
        else { std::string nm = "v" + std::to_string(i); vars.push_back(ints ? L.mkIntVar(nm.c_str()) : L.mkRealVar(nm.c_str())); }
    }
    while (vars.size() < 2) { std::string nm = "w" + std::to_string(vars.size()); vars.push_back(ints ? L.mkIntVar(nm.c_str()) : L.mkRealVar(nm.c_str())); }
    if (consts.empty()) consts.push_back(mkc());
    auto lin = [&]() {
        vec<PTRef> sum;
        int k = 1 + s.below(3);
        for (int i = 0; i < k; ++i) {
            PTRef v = vars[s.below(vars.size())];
            sum.push(s.below(2) == 0 ? v : L.mkTimes(consts[s.below(consts.size())], v));
        }
        if (s.below(2) == 0) sum.push(consts[s.below(consts.size())]);
        return L.mkPlus(std::move(sum));
    };
    int ncalls = 2 + s.below(6);
    bool any = false;
    for (int c = 0; c < ncalls; ++c) {
        PTRef a = lin(), b = lin();
        PTRef r1, r2;
        const char * op;
        try {
            switch (s.below(4)) {
                case 0: case 1: op = "="; r1 = L.mkEq(a, b); r2 = L.mkEq(b, a); break;
                case 2: op = "+"; r1 = L.mkPlus(a, b); r2 = L.mkPlus(b, a); break;
                default: { op = "distinct"; vec<PTRef> x; x.push(a); x.push(b); vec<PTRef> y; y.push(b); y.push(a); r1 = L.mkDistinct(std::move(x)); r2 = L.mkDistinct(std::move(y)); break; }
            }
        } catch (...) { continue; }
        if (count) stats.evaluations++;
        any = true;
        if (std::getenv("H_DEBUG")) std::printf("(%s a b): a = %s [%u], b = %s [%u] -> %s [%u] / %s [%u]\n", op, L.termToSMT2String(a).c_str(), a.x, L.termToSMT2String(b).c_str(), b.x, L.termToSMT2String(r1).c_str(), r1.x, L.termToSMT2String(r2).c_str(), r2.x);
        if (r1 != r2) {
            failure = std::string("fresh store: argument order of commutative (") + op + " a b) changes the identity: a = " + L.termToSMT2String(a) + ", b = " + L.termToSMT2String(b) + ": " + L.termToSMT2String(r1) + " vs " + L.termToSMT2String(r2);
            return false;
        }
        if (!registerTerm(r1, &L)) return false;
        // the same call once more
        PTRef r3 = std::string(op) == "=" ? L.mkEq(a, b) : std::string(op) == "+" ? L.mkPlus(a, b) : r1;
        if (r3 != r1) { failure = std::string("fresh store: same call twice gives different identities for (") + op + " ...)"; return false; }
    }
    if (count && any) { stats.nontrivial++; stats.classes["fresh-store"]++; }
    return true;
}

static std::string showWords(std::vector<uint32_t> const & w, bool ie) {
    std::ostringstream o;
    o << (ie ? "round" : "mk");
    for (auto x : w) o << " " << x;
    o << "\n";
    return o.str();
}

// C27 (a): constant folding of div/mod against the Euclidean definition, exhaustive over the boundary pool
static long constsMode() {
    ArithLogic & L = env->logic;
    std::vector<mpz_class> vals;
    for (auto b : BIGS) { vals.push_back(mpz_class(b)); vals.push_back(-mpz_class(b)); vals.push_back(mpz_class(b) + 7); vals.push_back(-mpz_class(b) - 5); }
    long fails = 0;
    for (auto const & n : vals) for (auto const & d : vals) {
        if (d == 0) continue;
        stats.evaluations++;
        PTRef nt = L.mkIntConst(Number(n.get_str().c_str())), dt = L.mkIntConst(Number(d.get_str().c_str()));
        PTRef q = L.mkIntDiv(nt, dt), m = L.mkMod(nt, dt);
        if (!L.isNumConst(q) || !L.isNumConst(m)) { stats.classes["not-folded"]++; continue; }
        mpz_class qv(L.getNumConst(q).get_str()), mv(L.getNumConst(m).get_str());
        bool ok = (n == d * qv + mv) && mv >= 0 && mv < abs(d);
        if (d < 0 || !n.fits_sint_p() || !d.fits_sint_p()) stats.nontrivial++;
        if (!ok) {
            ++fails;
            failure = "div/mod folding: " + n.get_str() + " div/mod " + d.get_str() + " = " + qv.get_str() + " rem " + mv.get_str();
            if (fails <= 5) std::printf("FAIL %s\n", failure.c_str());
        }
    }
    // (e) negation of integer difference constraints: not(a-b <= c) <=> b-a <= -c-1
    for (auto const & c : vals) {
        if (!c.fits_slong_p()) continue;
        long cv = c.get_si();
        // (-c-1 is representable for every c of the range, the two extremes included)
        stats.evaluations++;
        SafeInt r = Converter<SafeInt>::negate(SafeInt(cv));
        if (mpz_class(r.value()) != -c - 1) { ++fails; failure = "Converter<SafeInt>::negate(" + c.get_str() + ")"; std::printf("FAIL %s\n", failure.c_str()); }
    }
    return fails;
}

// C27 (b): the div/mod elimination axioms: rewritten formula implies the original when .div/.mod are the true quotient/remainder,
// and the original implies the rewritten one under that instantiation
static bool divmodRewrite(std::vector<uint32_t> const & words, bool count) {
    Src s{words};
    ArithLogic & L = env->logic;
    T fla;
    try { fla = build(s, B, 2, false, true); } catch (...) { return true; }
    if (count) stats.evaluations++;
    std::string orig = str(fla.tr);
    if (std::getenv("H_DEBUG")) std::fprintf(stderr, "ORIG %s\n", orig.c_str());
    if (orig.find("(div ") == std::string::npos && orig.find("(mod ") == std::string::npos) return true;
    if (excl("mod-div-zero") && (orig.find(" 0)") != std::string::npos)) { return true; }
    PTRef rew;
    try { rew = DivModRewriter(L).rewrite(fla.tr); } catch (std::exception const & e) { if (count) stats.classes["rewrite-rejected"]++; return true; }
    std::string rs = str(rew);
    // collect auxiliary symbols
    std::string defs, decls2;
    std::vector<PTRef> todo{rew};
    std::set<uint32_t> seen;
    while (!todo.empty()) {
        PTRef t = todo.back(); todo.pop_back();
        if (!seen.insert(t.x).second) continue;
        std::string name = L.getSymName(t);
        if (L.isVar(t) && name.rfind(".div", 0) == 0) { defs += "(define-fun |" + name + "| () Int " + str(DivModConfig::getDivTermFor(L, t)) + ")"; decls2 += "(declare-fun |" + name + "| () Int)"; }
        if (L.isVar(t) && name.rfind(".mod", 0) == 0) { defs += "(define-fun |" + name + "| () Int " + str(DivModConfig::getModTermFor(L, t)) + ")"; decls2 += "(declare-fun |" + name + "| () Int)"; }
        for (int i = 0; i < L.getPterm(t).size(); ++i) todo.push_back(L.getPterm(t)[i]);
    }
    auto q = [&](std::string const & pre, std::string const & a) {
        std::string sc = "(push)" + pre + "(assert " + a + ")(check-sat)(pop)";
        std::string out = Z3_eval_smtlib2_string(env->z3, sc.c_str());
        while (!out.empty() && (out.back() == '\n' || out.back() == ' ')) out.pop_back();
        return out;
    };
    std::string r1 = q(decls2, "(and " + rs + " (not " + orig + "))");           // aux free: rewritten implies original
    std::string r2 = q(defs, "(and " + orig + " (not " + rs + "))");              // true quotient/remainder satisfy the definitions
    if (count) { stats.nontrivial++; stats.classes["divmod-rewrite"]++; if (stats.samples.size() < 4) stats.sample(orig + "  ==>  " + rs); }
    if (r1 == "sat") { failure = "div/mod elimination does not imply the original: " + orig + "  ==>  " + rs; return false; }
    if (r2 == "sat") { failure = "div/mod axioms exclude the true quotient/remainder: " + orig + "  ==>  " + rs; return false; }
    return true;
}

int main(int argc, char ** argv) {
    std::string mode = argc > 1 ? argv[1] : "mk";
    const char * statsPath = std::getenv("H_STATS");
    const char * failPath = std::getenv("H_FAIL");
    if (std::getenv("H_EXCLUDE")) excludeList = std::getenv("H_EXCLUDE");
    Env e;
    env = &e;
    if (mode == "replay" && argc > 2) {
        std::ifstream in(argv[2]);
        std::string m; in >> m;
        std::vector<uint32_t> w; uint32_t x;
        while (in >> x) w.push_back(x);
        bool ok = m == "rewrite" ? divmodRewrite(w, true) : m == "hc" ? hashconsCase(w, true) : m == "hcfresh" ? hashconsFresh(w, true) : checkCase(w, m == "round", true);
        std::printf(ok ? "OK\n" : "FAIL %s\n", failure.c_str());
        return ok ? 0 : 1;
    }
    if (mode == "consts") {
        long f = constsMode();
        stats.sample("n, d over +-{0,1,2,3,2^31-1..2^31+1,2^32-1,2^32,2^53,2^53+1,2^63-1,2^63,2^64,123456789012345678901234567890} (+7/-5 shifted): mkIntDiv/mkMod folded vs n = d*q + r, 0 <= r < |d|");
        stats.dump(statsPath);
        std::printf("consts done: %ld failures\n", f);
        return f ? 1 : 0;
    }
    if (mode == "hc") {
        bool okh = rc::check("equal terms share one identity and subterms come first", [&]() {
            auto w = *rc::gen::resize(100, rc::gen::container<std::vector<uint32_t>>(rc::gen::inRange<uint32_t>(0, 1000003)));
            if (w.size() < 12) w.resize(12, 5);
            if (!hashconsCase(w, true)) { std::ostringstream o; o << "hc"; for (auto x : w) o << " " << x; o << "\n"; writeFile(failPath, o.str()); RC_FAIL(failure); }
            if (!hashconsFresh(w, true)) { std::ostringstream o; o << "hcfresh"; for (auto x : w) o << " " << x; o << "\n"; writeFile(failPath, o.str()); RC_FAIL(failure); }
        });
        stats.dump(statsPath);
        return okh ? 0 : 1;
    }
    bool ie = mode == "round";
    bool ok = rc::check(ie ? "integer relations / div / mod constructors and div-mod elimination are exact" : "term constructors return equivalent terms", [&]() {
        auto w = *rc::gen::resize(100, rc::gen::container<std::vector<uint32_t>>(rc::gen::inRange<uint32_t>(0, 1000003)));
        if (w.size() < 8) w.resize(8, 3);
        if (!checkCase(w, ie, true)) { writeFile(failPath, showWords(w, ie)); RC_FAIL(failure); }
        if (ie && !divmodRewrite(w, true)) { writeFile(failPath, "rewrite" + showWords(w, ie).substr(5)); RC_FAIL(failure); }
    });
    stats.dump(statsPath);
    return ok ? 0 : 1;
}
