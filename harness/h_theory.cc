// C22 arm B — theory solver verdicts depend only on the asserted literals: the theory solvers driven directly, in process,
// with the protocol of THandler / CoreSMTSolver (one backtrack point per literal, literals grouped in decision levels,
// backtracking to level boundaries only, at least one level after every conflict, deductions drained after a successful check
// and asserted back), libz3 as the oracle for the currently asserted literal set.
// Modes: h_theory lra | euf | idl | rdl | ax | replay <file>
// A case is a vector of entropy words consumed by a deterministic interpreter (so rapidcheck shrinks the history).
#include "common.h"
#include <logics/ArithLogic.h>
#include <logics/Logic.h>
#include <options/SMTConfig.h>
#include <tsolvers/lasolver/LASolver.h>
#include <tsolvers/egraph/Egraph.h>
#include <tsolvers/arraysolver/ArraySolver.h>
#include <tsolvers/stpsolver/IDLSolver.h>
#include <tsolvers/stpsolver/RDLSolver.h>
#include <rapidcheck.h>
#include <z3.h>
#include <ctime>
#include <iostream>
#include <memory>
#include <set>
#include <sstream>

using namespace opensmt;
static Stats stats;
static std::string failure;
static std::string lastFailing;
static bool echo = false;   // replay: print every step as it happens (a crash then shows how far the history got)

struct Src {
    std::vector<uint32_t> const & w;
    size_t pos = 0;
    uint32_t next() { return pos < w.size() ? w[pos++] : 0; }
    uint32_t below(uint32_t n) { return n ? next() % n : 0; }
    bool done() const { return pos >= w.size(); }
};

static Z3_context z3;
static void z3init() {
    Z3_config cfg = Z3_mk_config();
    Z3_set_param_value(cfg, "timeout", "4000");
    z3 = Z3_mk_context(cfg);
    Z3_del_config(cfg);
    Z3_eval_smtlib2_string(z3, "(set-option :timeout 3000)");
    std::ostringstream d;
    d << "(declare-sort U 0)";
    for (int i = 0; i < 5; ++i) d << "(declare-fun x" << i << " () Real)(declare-fun i" << i << " () Int)(declare-fun u" << i << " () U)";
    d << "(declare-fun f (U) U)(declare-fun g (U U) U)(declare-fun p (U) Bool)(declare-fun q (U U) Bool)";
    d << "(declare-sort I 0)(declare-sort E 0)";
    for (int i = 0; i < 5; ++i) d << "(declare-fun a" << i << " () (Array I E))(declare-fun j" << i << " () I)(declare-fun e" << i << " () E)";
    Z3_eval_smtlib2_string(z3, d.str().c_str());
}
// "sat" | "unsat" | other
static std::string z3query(std::vector<std::string> const & lits) {
    std::string s = "(push)";
    for (auto const & l : lits) s += "(assert " + l + ")";
    s += "(check-sat)(pop)";
    std::string out = Z3_eval_smtlib2_string(z3, s.c_str());
    while (!out.empty() && (out.back() == '\n' || out.back() == ' ')) out.pop_back();
    return out;
}

struct World {
    std::unique_ptr<Logic> logicHolder;
    Logic * logic = nullptr;
    SMTConfig config;
    std::unique_ptr<TSolver> solver;           // first (or only) solver
    std::unique_ptr<TSolver> second;           // arrays: the array solver working on top of the Egraph
    std::vector<TSolver *> sched;              // the solver schedule, handled as TSolverHandler does
    bool judgeSat = true;                      // arrays: consistency verdicts are not judged (extensionality witnesses are added by the front end, not by the solver)
    std::vector<std::vector<std::pair<int, bool>>> clauses;   // split / lemma clauses handed out by the solvers
    // -- TSolverHandler semantics over the schedule
    void declareAtom(PTRef tr) { for (auto * s : sched) if (s->isValid(tr)) s->declareAtom(tr); }
    void informNewSplit(PTRef tr) { for (auto * s : sched) if (s->isValid(tr)) s->informNewSplit(tr); }
    bool assertLit(PtAsgn a) {
        bool res = true;
        for (auto * s : sched) { s->pushBacktrackPoint(); if (!s->isInformed(a.tr)) continue; res &= s->assertLit(a); }
        return res;
    }
    void pop(unsigned n) { for (auto * s : sched) s->popBacktrackPoints(n); }
    TRes check(bool complete) {
        TRes fin = TRes::SAT;
        for (auto * s : sched) { TRes r = s->check(complete); if (r == TRes::UNSAT) return r; if (r == TRes::UNKNOWN) fin = r; }
        return fin;
    }
    void getConflict(vec<PtAsgn> & e) { for (auto * s : sched) if (s->hasExplanation()) { s->getConflict(e); return; } }
    PtAsgn_reason getDeduction() {
        for (auto * s : sched) { PtAsgn_reason d = s->getDeduction(); if (d.tr != PTRef_Undef) return d; }
        return PtAsgn_reason_Undef;
    }
    bool hasNewSplits() { for (auto * s : sched) if (s->hasNewSplits()) return true; return false; }
    std::vector<PTRef> atoms;
    std::vector<bool> positiveOnly;
    bool preferTrue = false;  // 'tight' arithmetic worlds: atoms are asserted positively four times out of five
    std::vector<int> group;   // atoms over the same linear term / sharing a subterm: related bounds are preferred when asserting
};

static bool addAtom(World & w, PTRef t, bool posOnly = false, int group = -1) {
    Logic & L = *w.logic;
    if (L.isNot(t)) t = L.getPterm(t)[0];
    if (t == L.getTerm_true() || t == L.getTerm_false()) return false;
    for (PTRef a : w.atoms) if (a == t) return false;
    w.atoms.push_back(t);
    w.positiveOnly.push_back(posOnly);
    w.group.push_back(group);
    return true;
}

static void buildArith(World & w, Src & s, std::string const & mode) {
    bool dl = mode != "lra";
    bool ints = mode == "idl";
    bool tight = false;
    auto * al = new ArithLogic(mode == "lra" ? Logic_t::QF_LRA : ints ? Logic_t::QF_IDL : Logic_t::QF_RDL);
    w.logicHolder.reset(al);
    w.logic = al;
    if (mode == "lra") w.solver.reset(new LASolver(w.config, *al));
    else if (ints) w.solver.reset(new IDLSolver(w.config, *al));
    else w.solver.reset(new RDLSolver(w.config, *al));
    w.sched = {w.solver.get()};
    int nv = dl ? 3 + s.below(3) : 2 + s.below(3);
    std::vector<PTRef> vars;
    for (int i = 0; i < nv; ++i) {
        std::string n = (ints ? "i" : "x") + std::to_string(i);
        vars.push_back(ints ? al->mkIntVar(n.c_str()) : al->mkRealVar(n.c_str()));
    }
    auto num = [&](int v, int den = 1) {
        FastRational r(v, den);
        return ints ? al->mkIntConst(r) : al->mkRealConst(r);
    };
    // a few linear terms shared by several atoms (several bounds on the same row / the same pair of vertices); in LRA the
    // variables themselves are always among them, so that bounds on a row and on its summands meet in one history
    std::vector<PTRef> bases;
    if (dl) {
        int nb = 1 + s.below(5);
        for (int b = 0; b < nb; ++b) {
            int i = s.below(nv), j = s.below(nv);
            if (s.below(6) == 0) { bases.push_back(vars[i]); continue; }
            if (i == j) j = (j + 1) % nv;
            bases.push_back(al->mkMinus(vars[i], vars[j]));
        }
    } else {
        // 'tight' worlds: rows with positive coefficients bounded from above, variables bounded from below, so that a row
        // bound and the bounds of its summands contradict each other about half of the time
        tight = s.below(2) == 0;
        w.preferTrue = tight;
        int nrows = 1 + s.below(3);
        for (int b = 0; b < nrows; ++b) {
            int k = 2 + s.below(2);
            vec<PTRef> sum;
            static const int coefs[] = {1, 1, 1, -1, -1, 2, -2, 3};
            for (int t = 0; t < k; ++t) {
                PTRef v = vars[(b + t + s.below(2)) % nv];
                int c = tight ? 1 + (int)(s.below(4) == 0) : coefs[s.below(8)];
                bool half = s.below(10) == 0;
                sum.push(al->mkTimes(half ? num(c, 2) : num(c), v));
            }
            PTRef base = al->mkPlus(sum);
            if (!al->isConstant(base)) { bases.push_back(base); bases.push_back(base); }   // rows are picked twice as often
        }
        for (PTRef v : vars) bases.push_back(v);
    }
    int na = 5 + s.below(9);
    for (int a = 0; a < na; ++a) {
        int bi = s.below(bases.size());
        PTRef base = bases[bi];
        int c = dl ? (int)s.below(9) - 4 : (int)s.below(7) - 3;
        PTRef k = (!ints && s.below(8) == 0) ? num(2 * c + 1, 2) : num(c);
        PTRef t;
        uint32_t opk = s.below(4);
        if (tight) opk = al->isVar(base) ? 1 + 2 * (opk & 1) : 2 * (opk & 1);   // rows: <= or <, variables: >= or >
        switch (opk) {
            case 0: t = al->mkLeq(base, k); break;
            case 1: t = al->mkGeq(base, k); break;
            case 2: t = al->mkLt(base, k); break;
            default: t = al->mkGt(base, k); break;
        }
        addAtom(w, t, false, (int)base.x);
    }
}

static void buildEuf(World & w, Src & s) {
    auto * L = new Logic(Logic_t::QF_UF);
    w.logicHolder.reset(L);
    w.logic = L;
    w.solver.reset(new Egraph(w.config, *L));
    w.sched = {w.solver.get()};
    SRef U = L->declareUninterpretedSort("U");
    std::vector<PTRef> consts;
    int nc = 3 + s.below(3);
    for (int i = 0; i < nc; ++i) consts.push_back(L->mkVar(U, ("u" + std::to_string(i)).c_str()));
    SymRef f = L->declareFun("f", U, {U});
    SymRef g = L->declareFun("g", U, {U, U});
    SymRef p = L->declareFun("p", L->getSort_bool(), {U});
    SymRef q = L->declareFun("q", L->getSort_bool(), {U, U});
    std::function<PTRef(int)> term = [&](int depth) -> PTRef {
        uint32_t r = s.below(depth <= 0 ? 1 : 4);
        if (r <= 1) return consts[s.below(nc)];
        if (r == 2) return L->mkUninterpFun(f, {term(depth - 1)});
        PTRef a = term(depth - 1);
        return L->mkUninterpFun(g, {a, term(depth - 1)});
    };
    // a small pool of terms reused across atoms, so that merges actually meet
    std::vector<PTRef> pool;
    int np = 4 + s.below(5);
    for (int i = 0; i < np; ++i) pool.push_back(term(2));
    auto pick = [&]() { return pool[s.below(pool.size())]; };
    int na = 4 + s.below(8);
    for (int a = 0; a < na; ++a) {
        switch (s.below(7)) {
            case 0: case 1: case 2: case 3: { PTRef x = pick(); addAtom(w, L->mkEq(x, pick())); break; }
            case 4: addAtom(w, L->mkUninterpFun(p, {pick()})); break;
            case 5: { PTRef x = pick(); addAtom(w, L->mkUninterpFun(q, {x, pick()})); break; }
            default: {
                vec<PTRef> args;
                int n = 3 + s.below(2);
                for (int i = 0; i < n; ++i) args.push(pick());
                PTRef d = L->mkDistinct(std::move(args));
                // only a genuine n-ary distinct is a positive-only atom; a negated n-ary distinct is never sent to the Egraph
                if (L->isDisequality(d)) addAtom(w, d, true);
                break;
            }
        }
    }
}

static void buildAx(World & w, Src & s) {
    auto * L = new Logic(Logic_t::QF_AX);
    w.logicHolder.reset(L);
    w.logic = L;
    auto * eg = new Egraph(w.config, *L);
    w.solver.reset(eg);
    w.second.reset(new ArraySolver(*L, *eg, w.config));
    w.sched = {w.solver.get(), w.second.get()};
    w.judgeSat = false;
    SRef I = L->declareUninterpretedSort("I");
    SRef E = L->declareUninterpretedSort("E");
    SRef A = L->getArraySort(I, E);
    std::vector<PTRef> arrs, idxs, elems;
    int na = 2 + s.below(2), ni = 2 + s.below(3), ne = 2 + s.below(2);
    for (int i = 0; i < na; ++i) arrs.push_back(L->mkVar(A, ("a" + std::to_string(i)).c_str()));
    for (int i = 0; i < ni; ++i) idxs.push_back(L->mkVar(I, ("j" + std::to_string(i)).c_str()));
    for (int i = 0; i < ne; ++i) elems.push_back(L->mkVar(E, ("e" + std::to_string(i)).c_str()));
    auto idx = [&]() { return idxs[s.below(ni)]; };
    std::function<PTRef(int)> arr = [&](int d) -> PTRef {
        if (d <= 0 || s.below(2) == 0) return arrs[s.below(na)];
        PTRef base = arr(d - 1);
        PTRef i = idx();
        PTRef v = s.below(3) == 0 ? L->mkSelect({arrs[s.below(na)], idx()}) : elems[s.below(ne)];
        return L->mkStore({base, i, v});
    };
    auto elem = [&]() -> PTRef {
        if (s.below(3) == 0) return elems[s.below(ne)];
        PTRef a = arr(2);
        return L->mkSelect({a, idx()});
    };
    int n = 5 + s.below(8);
    for (int a = 0; a < n; ++a) {
        switch (s.below(6)) {
            case 0: case 1: { PTRef x = elem(); addAtom(w, L->mkEq(x, elem())); break; }       // reads (over stores) compared
            case 2: { PTRef x = idx(); addAtom(w, L->mkEq(x, idx())); break; }                 // index equalities
            case 3: case 4: { PTRef x = arr(2); addAtom(w, L->mkEq(x, arr(1))); break; }       // array equalities
            default: { PTRef x = elems[s.below(ne)]; addAtom(w, L->mkEq(x, elems[s.below(ne)])); break; }
        }
    }
}

struct Run {
    World & w;
    std::vector<std::pair<int, bool>> stack;  // asserted literals in order (atom index, polarity)
    std::vector<size_t> levelStart;           // index into stack where each decision level starts; level 0 starts at 0
    std::vector<int> value;                   // per atom: 0 unassigned, 1 true, -1 false
    std::vector<bool> declared;
    int backtracks = 0, verdictsAfterBacktrack = 0, verdicts = 0;
    bool unchecked = false;                   // literals asserted since the last successful check
    std::ostringstream log;
    void say(std::string const & m) { log << m << "\n"; if (echo) { std::printf("%s\n", m.c_str()); std::fflush(stdout); } }

    std::string lit(std::pair<int, bool> const & l) const {
        std::string a = w.logic->termToSMT2String(w.atoms[l.first]);
        return l.second ? a : "(not " + a + ")";
    }
    std::vector<std::string> current() const {
        std::vector<std::string> out;
        for (auto const & l : stack) out.push_back(lit(l));
        return out;
    }
    std::string show() const {
        std::string s;
        for (auto const & l : current()) s += " " + l;
        return s;
    }
    void declare(int i) {
        if (declared[i]) return;
        w.declareAtom(w.atoms[i]);
        declared[i] = true;
        say("declare " + w.logic->termToSMT2String(w.atoms[i]));
    }
    int findAtom(PTRef t) const {
        for (size_t i = 0; i < w.atoms.size(); ++i) if (w.atoms[i] == t) return (int)i;
        return -1;
    }
    // a lemma / split clause handed out by a solver: its atoms become known (declared, informNewSplit) and assertable
    void addClause(PTRef c) {
        Logic & L = *w.logic;
        std::vector<PTRef> lits;
        if (L.isOr(c)) { Pterm const & t = L.getPterm(c); for (PTRef x : t) lits.push_back(x); } else lits.push_back(c);
        std::vector<std::pair<int, bool>> cl;
        for (PTRef l : lits) {
            bool pol = !L.isNot(l);
            PTRef atom = pol ? l : L.getPterm(l)[0];
            int i = findAtom(atom);
            if (i < 0) {
                w.atoms.push_back(atom); w.positiveOnly.push_back(false); w.group.push_back(-1);
                value.push_back(0); declared.push_back(false);
                i = (int)w.atoms.size() - 1;
            }
            if (!declared[i]) { w.declareAtom(atom); declared[i] = true; }
            if (w.group[i] < 0) w.group[i] = 1000000 + (int)w.clauses.size();   // atoms of one lemma are related to each other
            w.informNewSplit(atom);
            cl.push_back({i, pol});
        }
        say("clause from solver: " + L.termToSMT2String(c));
        w.clauses.push_back(cl);
    }
    // the SAT engine never makes all literals of a clause it holds false
    bool wouldFalsify(int i, bool pol) const {
        for (auto const & cl : w.clauses) {
            bool allFalse = true, mentions = false;
            for (auto const & l : cl) {
                int v = l.first == i ? (pol ? 1 : -1) : value[l.first];
                if (l.first == i) mentions = true;
                if (v == 0 || (v > 0) == l.second) { allFalse = false; break; }
            }
            if (mentions && allFalse) return true;
        }
        return false;
    }
    void noteVerdict() {
        verdicts++;
        if (backtracks) verdictsAfterBacktrack++;
    }
    // false = property violated (failure set)
    bool judgeConflict(const char * how) {
        noteVerdict();
        stats.classes[std::string("verdict:") + how]++;
        vec<PtAsgn> expl;
        w.getConflict(expl);
        std::vector<std::string> ex;
        for (PtAsgn pa : expl) {
            int i = findAtom(pa.tr);
            bool pol = pa.sgn == l_True;
            bool member = false;
            for (auto const & l : stack) if (l.first == i && l.second == pol) member = true;
            if (i < 0 || !member) {
                failure = std::string("conflict explanation contains a literal that is not currently asserted: ") +
                          (pol ? "" : "(not ") + w.logic->termToSMT2String(pa.tr) + (pol ? "" : ")") + "; asserted:" + show();
                return false;
            }
            ex.push_back(lit({i, pol}));
        }
        std::string r = z3query(current());
        if (r == "sat") {
            failure = std::string("inconsistency reported (") + how + ") for a satisfiable set of asserted literals:" + show();
            return false;
        }
        if (r != "unsat") stats.classes["z3-unknown"]++;
        std::string r2 = z3query(ex);
        if (r2 == "sat") {
            std::string e;
            for (auto const & x : ex) e += " " + x;
            failure = "conflict explanation is satisfiable:" + e + "; asserted:" + show();
            return false;
        }
        return true;
    }
    bool assertOne(int i, bool pol, bool & conflict) {
        declare(i);
        stack.push_back({i, pol});
        value[i] = pol ? 1 : -1;
        unchecked = true;
        say("assert " + lit({i, pol}));
        bool ok = w.assertLit(PtAsgn(w.atoms[i], pol ? l_True : l_False));
        conflict = !ok;
        if (!ok) { say("  -> conflict"); return judgeConflict("assert-conflict"); }
        return true;
    }
    void popLevels(int k) {
        size_t target = levelStart[levelStart.size() - k];
        unsigned n = stack.size() - target;
        for (size_t j = target; j < stack.size(); ++j) value[stack[j].first] = 0;
        stack.resize(target);
        levelStart.resize(levelStart.size() - k);
        if (levelStart.empty()) levelStart.push_back(0);
        if (n) w.pop(n);
        backtracks++;
        unchecked = false;   // what remains belongs to levels that were left only after a successful check
        say("backtrack " + std::to_string(k) + " level(s), " + std::to_string(n) + " literal(s)");
    }
    bool check(bool complete, bool & conflict) {
        TRes r = w.check(complete);
        say(std::string("check ") + (complete ? "complete" : "partial") + " -> " + (r == TRes::SAT ? "SAT" : r == TRes::UNSAT ? "UNSAT" : "UNKNOWN"));
        conflict = r == TRes::UNSAT;
        if (conflict) return judgeConflict("check-unsat");
        if (r != TRes::SAT) { stats.classes["check-unknown"]++; return true; }
        unchecked = false;
        if (complete && w.judgeSat && !w.hasNewSplits()) {
            noteVerdict();
            stats.classes["verdict:complete-sat"]++;
            std::string z = z3query(current());
            if (z == "unsat") {
                failure = "complete check reports consistency for an unsatisfiable set of asserted literals:" + show();
                return false;
            }
            if (z != "sat") stats.classes["z3-unknown"]++;
        }
        // split / lemma clauses are fetched after every successful check (CoreSMTSolver::handleSat), from the first solver that has some
        for (auto * sv : w.sched) {
            if (!sv->hasNewSplits()) continue;
            vec<PTRef> cls;
            sv->getNewSplits(cls);
            stats.classes["clauses-from-solver"] += cls.size();
            for (PTRef c : cls) addClause(c);
            break;
        }
        // theory propagation: the SAT engine drains the deductions after a successful check and enqueues them
        std::vector<std::pair<int, bool>> deds;
        while (true) {
            PtAsgn_reason d = w.getDeduction();
            if (d.tr == PTRef_Undef) break;
            int i = findAtom(d.tr);
            if (i < 0) continue;
            bool pol = d.sgn == l_True;
            stats.classes["deduction"]++;
            auto cur = current();
            cur.push_back(lit({i, !pol}));
            std::string z = z3query(cur);
            if (z == "sat") {
                failure = "deduced literal " + lit({i, pol}) + " is not implied by the asserted literals:" + show();
                return false;
            }
            if (value[i] == 0) deds.push_back({i, pol});
        }
        for (auto const & d : deds) {
            if (value[d.first] != 0) continue;
            bool c = false;
            if (!assertOne(d.first, d.second, c)) return false;
            if (c) { conflict = true; return true; }
        }
        return true;
    }
};

static bool runCase(std::vector<uint32_t> const & words, std::string const & mode, bool count, std::string * trace = nullptr) {
    Src s{words};
    World w;
    if (mode == "euf") buildEuf(w, s); else if (mode == "ax") buildAx(w, s); else buildArith(w, s, mode);
    if (count) stats.evaluations++;
    if (w.atoms.size() < 2) return true;
    Run r{w};
    r.value.assign(w.atoms.size(), 0);
    r.declared.assign(w.atoms.size(), false);
    r.levelStart.push_back(0);
    // Atoms are made known to EUF and difference logic only while nothing is asserted (clearSearch() retracts everything, level 0
    // included, before the front end declares the atoms of new assertions); the STP solver relies on it (its consequence
    // search only sees known atoms). LASolver is also told about new atoms in the middle of a search (splits and cuts in
    // LIA, test_LASolverIncrementality), so for it declarations may come at any time.
    bool lateDeclOk = mode == "lra";
    bool upfront = !lateDeclOk || s.below(4) == 0;
    if (upfront) for (size_t i = 0; i < w.atoms.size(); ++i) r.declare((int)i);
    int steps = 8 + s.below(40);
    bool ok = true;
    bool dead = false;   // a conflict at level 0 ends the history (the SAT engine answers unsat)
    try {
        for (int st = 0; st < steps && ok; ++st) {
            uint32_t op = s.below(100);
            bool conflict = false;
            if (op < 4 && lateDeclOk) {
                // declare an atom ahead of its first use
                r.declare((int)s.below(w.atoms.size()));
            } else if (op < 65) {
                bool episode = op >= 50 && !r.stack.empty();
                std::vector<int> free;
                for (size_t i = 0; i < w.atoms.size(); ++i) if (r.value[i] == 0) free.push_back((int)i);
                if (free.empty()) { op = 99; }
                else {
                    int i = free[s.below(free.size())];
                    if (episode || s.below(2) == 0) {
                        // prefer an atom related to something already asserted (another bound on the same term)
                        std::vector<int> rel;
                        for (int f : free) for (auto const & l : r.stack)
                            if (w.group[f] >= 0 && w.group[f] == w.group[l.first]) { rel.push_back(f); break; }
                        if (!rel.empty()) i = rel[s.below(rel.size())];
                    }
                    bool pol = w.positiveOnly[i] ? true : w.preferTrue ? s.below(5) != 0 : w.group[i] >= 1000000 ? s.below(3) == 0 : s.below(2) == 0;
                    if (r.wouldFalsify(i, pol)) { if (w.positiveOnly[i] || r.wouldFalsify(i, !pol)) continue; pol = !pol; }
                    // a new decision level starts with probability 1/2 (never an empty level). The SAT engine decides only after
                    // assertLits + check succeeded for everything on the trail, so unchecked literals are checked first.
                    bool newLevel = r.stack.size() > r.levelStart.back() && (episode || s.below(2) == 0);
                    if (newLevel && r.unchecked) ok = r.check(false, conflict);
                    if (ok && !conflict) {
                        if (newLevel) r.levelStart.push_back(r.stack.size());
                        ok = r.assertOne(i, pol, conflict);
                        // an episode: decide a related literal, look at the result, and take the decision back
                        if (ok && !conflict && episode && newLevel) {
                            ok = r.check(s.below(2) == 0, conflict);
                            if (ok && !conflict) r.popLevels(1);
                        }
                    }
                }
            } else if (op < 85) {
                ok = r.check(s.below(2) == 0, conflict);
                // a short excursion: the level just explored is left again right after its check
                if (ok && !conflict && r.levelStart.size() > 1 && s.below(4) == 0) r.popLevels(1);
            }
            if (ok && conflict) {
                if (r.levelStart.size() == 1) { stats.classes["ended-by-level0-conflict"]++; dead = true; break; }
                int k = 1 + s.below(r.levelStart.size() - 1);
                if (k > 1 && s.below(3) == 0) { r.popLevels(1); k--; }   // cancelUntil(max level), then cancelUntil(backtrack level)
                r.popLevels(k);
            } else if (ok && op >= 85) {
                if (r.levelStart.size() > 1) r.popLevels(1 + s.below(r.levelStart.size() - 1));
                else if (!r.stack.empty() && s.below(4) == 0) r.popLevels(1);   // end of a solve call: level 0 is retracted too
            }
        }
        // closing phase: a few more literals, each followed by a complete check (verdicts after the excursions above)
        for (int c = 0; c < 3 && ok && !dead; ++c) {
            std::vector<int> free;
            for (size_t i = 0; i < w.atoms.size(); ++i) if (r.value[i] == 0) free.push_back((int)i);
            if (free.empty()) break;
            int i = free[s.below(free.size())];
            bool pol = w.positiveOnly[i] ? true : w.preferTrue ? s.below(5) != 0 : s.below(2) == 0;
            if (r.wouldFalsify(i, pol)) { if (w.positiveOnly[i] || r.wouldFalsify(i, !pol)) continue; pol = !pol; }
            bool conflict = false;
            ok = r.assertOne(i, pol, conflict);
            if (!ok || conflict) break;
            ok = r.check(true, conflict);
            if (!ok || conflict) break;
        }
    } catch (std::exception const & e) {
        failure = std::string("exception from the theory solver: ") + e.what() + "; asserted:" + r.show();
        ok = false;
    }
    if (trace) *trace = r.log.str();
    if (count) {
        stats.classes["mode:" + mode]++;
        if (r.verdictsAfterBacktrack > 0) {
            stats.nontrivial++;
            if (stats.samples.size() < 3) stats.sample(mode + ": " + r.log.str().substr(0, 700));
        }
        if (upfront) stats.classes["declared-upfront"]++; else stats.classes["declared-lazily"]++;
    }
    return ok;
}

static std::string showWords(std::string const & mode, std::vector<uint32_t> const & w) {
    std::ostringstream o;
    o << mode;
    for (auto x : w) o << " " << x;
    o << "\n";
    return o.str();
}

int main(int argc, char ** argv) {
    std::string mode = argc > 1 ? argv[1] : "lra";
    const char * statsPath = std::getenv("H_STATS");
    const char * failPath = std::getenv("H_FAIL");
    z3init();
    if (mode == "replay" && argc > 2) {
        std::ifstream in(argv[2]);
        std::string m; in >> m;
        std::vector<uint32_t> w; uint32_t x;
        while (in >> x) w.push_back(x);
        echo = true;
        bool ok = runCase(w, m, true);
        std::printf(ok ? "OK\n" : "FAIL %s\n", failure.c_str());
        return ok ? 0 : 1;
    }
    // rapidcheck's own shrinking of a 100-word vector over [0, 10^6) takes hours; the checks run with noshrink=1 and the
    // failing history is minimised here instead, within a time budget
    auto minimise = [&](std::vector<uint32_t> w) {
        auto fails = [&](std::vector<uint32_t> const & c) { std::string keep = failure; bool f = !runCase(c, mode, false); if (!f) failure = keep; return f; };
        time_t t0 = time(nullptr);
        auto within = [&]() { return time(nullptr) - t0 < 40; };
        // shortest failing prefix (the words behind it read as 0)
        size_t lo = 0, hi = w.size();
        while (lo < hi && within()) {
            size_t mid = (lo + hi) / 2;
            std::vector<uint32_t> c(w.begin(), w.begin() + mid);
            if (fails(c)) hi = mid; else lo = mid + 1;
        }
        { std::vector<uint32_t> c(w.begin(), w.begin() + hi); if (fails(c)) w = c; }
        for (int round = 0; round < 2 && within(); ++round)
            for (size_t i = 0; i < w.size() && within(); ++i) {
                if (w[i] == 0) continue;
                auto c = w;
                c[i] = 0;
                if (fails(c)) { w = c; continue; }
                c[i] = w[i] % 100;
                if (c[i] != w[i] && fails(c)) w = c;
            }
        fails(w);
        return w;
    };
    bool ok = rc::check("theory solver verdicts depend only on the asserted literals", [&]() {
        auto w = *rc::gen::resize(100, rc::gen::container<std::vector<uint32_t>>(rc::gen::inRange<uint32_t>(0, 1000003)));
        if (w.size() < 40) w.resize(40, 7);
        // the case in flight is on disk before it runs: a sanitizer abort leaves it behind as the reproduction
        writeFile(failPath, showWords(mode, w));
        bool good = runCase(w, mode, true);
        if (!good) lastFailing = showWords(mode, w);   // rapidcheck shrinks greedily: the last failing candidate is the smallest
        writeFile(failPath, lastFailing);
        if (!good) RC_FAIL(failure);
    });
    if (!ok && !lastFailing.empty()) {
        std::istringstream in(lastFailing);
        std::string m; in >> m;
        std::vector<uint32_t> w; uint32_t x;
        while (in >> x) w.push_back(x);
        w = minimise(w);
        writeFile(failPath, showWords(mode, w));
        std::printf("minimised to %zu words: %s\n", w.size(), failure.c_str());
    }
    stats.dump(statsPath);
    return ok ? 0 : 1;
}
